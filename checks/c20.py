"""C20 — contract queries and view functions cannot change state.
The VM cannot be built here (no LuaJIT), so the binding is model extraction: tools/vmguards (go/ast + a small C
scanner) rebuilds VmGuards.tla from the CURRENT contract/*.go and contract/*.c on every run; TLC checks
ReadOnlyNoMutation / ViewImpliesReadOnly / NestingBalanced of spec/vm/ViewNesting.tla on it.
Dynamic part: the extractor drops every call of a state / statedb getter from the model as "pure" (classify.go);
READ_BINDING below names those getters, spec/vm/ReadPurity.tla generates the test plan (every read primitive x every
target class, cache operations of two block states) and harness/state/verif_pure_test.go replays it on the real
state package: twin runs with / without the reads, and isolation of the code/ABI caches of block states."""
import glob, json, os, random, re, shutil, subprocess, time
import vlib

LEVEL = "model_checking"
MANIFEST = dict(
    category=LEVEL, design_ref="DESIGN.md §5 C20",
    text="tools/vmguards extracts from the current source text (vm_callback.go, vm.go, vm_state.go and the helpers they call; vm.c, system_module.c, "
         "contract_module.c, db_module.c, state_module.c) one control-flow graph per exported Go host callback, per Lua-visible C function, for (*executor).call "
         "and for the four entry points (Call, Create, Query, CheckFeeDelegation): read-only guards (isQuery / nestedView / amount sign / hardfork / SQL handle "
         "tests with their real boolean structure), mutating primitives (storage, balance, code, nonce, account, event, governance, SQL step), flag writes, defers, "
         "nested executions.  ViewNesting.tla interprets these graphs under completely nondeterministic contract code: call chains of Lua frames mixing view and "
         "non-view functions, queries, fee-delegation checks, transactions; TLC checks that no mutating primitive runs while the context is read-only, that every "
         "frame that has to be read-only runs with the flags set, that the view depth never drops below its entry value and the flags are never reset.  "
         "A TLC counterexample is a path through named source lines of the current tree and is the verdict.  "
         "What the extraction trusts -- that the state / statedb getters the read-only primitives bottom out in (GetAccountState, GetState, GetData, GetCode, "
         "GetAccountAndProof, GetVarAndProof, OpenContractState(Account), the code/ABI caches of a block state, ...) are pure -- is checked on the REAL state package: "
         "a binding table names every such getter the extracted model uses (a getter missing from the table is no verdict), ReadPurity.tla (TLC-checked: reads leave "
         "the working state unchanged, a cache lookup returns what THAT block state cached) enumerates every read primitive x target class (committed / changed / new / "
         "unknown account, contract with committed / staged storage, new and unknown contract, existing / staged / deleted / missing key, latest and historical roots) in "
         "every state a few transactions of the block can produce, and cache operations of two block states (one opened before, one after a redeploy); the harness "
         "replays all of them twice (with and without the reads): after every single Go call the account buffer, storage cache, trie roots, caches and DB writes of the "
         "block state AND of two other block states must be unchanged and the returned value must be the model's, and roots / dumps / DB contents after Update+Commit "
         "must be equal in both runs.  The same for what the read-only host calls reach outside package state (system.GetStaking, name.GetAddress, name.Resolve, "
         "name.GetOwner: addresses with a committed staking record, a record of this block, no record; registered / unregistered / special names), also when an "
         "earlier governance transaction of the block has staged the storage of the system / name contract, so that a handle opened by a read shares it.",
    note="model extraction for the VM (the extractor and the mutating half of its classification tables tools/vmguards/classify.go stay in the trusted base; LuaJIT "
         "internals, sqlite and what happens below 'this function calls that primitive under these tests' are out of scope); the read-only half of the tables is "
         "discharged dynamically on the real state / statedb code (memorydb stands for the disk store; the VM-side call sequences getCode / GetABI are transcribed, "
         "the deployed code is the JSON of its ABI); every transition of the ReadPurity model is replayed into the implementation (behaviours replayed > 0)",
    technique="TLA+/TLC exhaustive model over control-flow graphs extracted from the current source; non-vacuity by node coverage; binding self-test by built-in source "
              "mutations; TLC-enumerated read / cache transitions replayed on the real state package as a twin-run differential (model-based conformance testing)")
SPEC_DIR = os.path.join(vlib.SPEC, "vm")
TOOL_DIR = os.path.join(vlib.VERIF, "tools", "vmguards")
PROPS = ("ReadOnlyNoMutation", "ViewImpliesReadOnly", "NestingBalanced")

# built-in source mutations for the binding self-test: (name, file, regex, replacement)
SELF_MUTATIONS = [
    ("setdb-guard-removed", "vm_callback.go",
     r'\tif ctx\.isQuery == true \|\| ctx\.nestedView > 0 \{\n\t\treturn C\.CString\("\[System\.LuaSetDB\][^\n]*\n\t\}\n', ""),
    ("deldb-guard-and", "vm_callback.go",
     r'(if ctx\.isQuery == true) \|\| (ctx\.nestedView > 0 \{\n\t\treturn C\.CString\("\[System\.LuaDelDB\])', r"\1 && \2"),
    ("send-guard-ignores-view", "vm_callback.go",
     r'if \(ctx\.isQuery == true \|\| ctx\.nestedView > 0\) && amountBig\.Cmp\(zeroBig\) > 0 \{', "if ctx.isQuery == true && amountBig.Cmp(zeroBig) > 0 {"),
    ("dbexec-view-check-removed", "db_module.c",
     r'\tif \(luaCheckView\(getLuaExecContext\(L\)\)> 0\) \{\n\t\tluaL_error\(L, "not permitted in view function"\);\n\t\}\n', ""),
    ("call-view-depth-not-raised", "vm.go", r'\t\tce\.ctx\.nestedView\+\+\n', ""),
    ("query-context-not-query", "vm.go", r'\t\tisQuery:     true,\n', ""),
    ("viewend-double-decrement", "vm_callback.go", r'\tctx\.nestedView--\n\}', "\tctx.nestedView -= 2\n}"),
    ("sql-handle-always-writable", "vm_callback.go",
     r'\tif ctx\.isQuery == true \{\n\t\ttx, err = beginReadOnly\(aid\.String\(\), curContract\.rp\)\n\t\} else \{\n(\t\ttx, err = beginTx\(aid\.String\(\), curContract\.rp\)\n)\t\}', r"\1"),
]

# --------------------------------------------------------------------------- the trusted base, made explicit
# Every state / statedb getter the extractor drops from the model as read-only (classify.go pureMethods and the "pure"
# entries of pkgFuncs, restricted to receivers of packages state and state/statedb), mapped to
#   go   : the Go call(s) it bottoms out in, by the names harness/state/verif_pure_test.go probes them under,
#   acts : the read actions of spec/vm/ReadPurity.tla (= transitions enumerated by TLC) that exercise it,
#   recv : receiver types (as the extractor resolves them) the entry stands for,
#   site : where the VM reaches it (comment; the CURRENT call sites are listed in the evidence from vmguards.json),
#   foreign : receiver expressions of calls of the same NAME on values that are not state objects.
# The check gives NO VERDICT if the extracted model (or the text of contract/*.go) uses a getter that is not here.
ACC = ("state.AccountState",)
CTR = ("statedb.ContractState",)
SDB = ("state.BlockState", "statedb.StateDB", "state.ChainStateDB")
READ_BINDING = {
    # -- StateDB (embedded in BlockState): the working state of the block
    "GetAccountState": dict(recv=SDB, go=["StateDB.GetAccountState"], acts=["RdGetAccountState", "RdData", "RdMulti"],
                            site="vm_callback.go luaGetBalance: bs.GetAccountState(aid) (contract.balance(addr)); statesql.go; below OpenContractStateAccount"),
    "GetState": dict(recv=SDB, go=["StateDB.GetState"], acts=["RdGetState"],
                     site="state/account.go GetAccountState (vm_state.go getCallState); vm_callback.go:148 contractProof.GetState() is the protobuf getter of types.AccountProof"),
    "GetAccountAndProof": dict(recv=SDB, go=["StateDB.GetAccountAndProof"], acts=["RdAcctProof", "RdVarProof"],
                               site="vm_callback.go luaGetDB with a block height: ctx.bs.GetAccountAndProof(accountId, root of that block, false)"),
    "GetVarAndProof": dict(recv=SDB, go=["StateDB.GetVarAndProof"], acts=["RdVarProof"],
                           site="vm_callback.go luaGetDB with a block height: ctx.bs.GetVarAndProof(trieKey, storage root of the historical state, false)"),
    "Snapshot": dict(recv=SDB + CTR, go=["BlockState.Snapshot", "StateDB.Snapshot", "ContractState.Snapshot"], acts=["RdSnapshot"],
                     site="vm_state.go createRecoveryPoint: cs.ctrState.Snapshot() (a revision number)"),
    # -- the code / ABI caches of a block state (their isolation from other block states is part 3 of the harness)
    "GetCode": dict(recv=SDB + CTR, go=["BlockState.GetCode", "ContractState.GetCode", "BlockState.GetCode/GetABI (isolation)"], acts=["RdVmLoad", "RdCode", "CacheLookup"],
                    site="vm.go getCode: bs.GetCode(aid), contractState.GetCode(); vm_callback.go luaDeployContract"),
    "AddCode": dict(recv=SDB, go=["BlockState.AddCode"], acts=["RdVmLoad", "CacheAdd"], site="vm.go getCode: bs.AddCode(aid, code)"),
    "GetABI": dict(recv=SDB, go=["BlockState.GetABI", "BlockState.GetCode/GetABI (isolation)"], acts=["RdVmLoad", "CacheLookup"], site="vm.go GetABI: bs.GetABI(aid)"),
    "AddABI": dict(recv=SDB, go=["BlockState.AddABI"], acts=["RdVmLoad", "CacheAdd"], site="vm.go GetABI: bs.AddABI(aid, abi)"),
    # -- ContractState
    "GetData": dict(recv=CTR, go=["ContractState.GetData"], acts=["RdData", "RdSys", "RdName"],
                    site="vm_callback.go luaGetDB: ctrState.GetData(key); contract.go checkRedeploy (creator); system.GetStaking / name.GetAddress"),
    "GetSourceCode": dict(recv=CTR, go=["ContractState.GetSourceCode"], acts=["RdCode"], site="vm_callback.go luaDeployContract (deploy by the address of an existing contract)"),
    "GetID": dict(recv=CTR, go=["ContractState accessors"], acts=["RdOpenAcc"], site="vm.go NewVmContextQuery"),
    "GetAccountID": dict(recv=CTR, go=["ContractState accessors"], acts=["RdOpenAcc"], site="vm.go getCode / GetABI"),
    "IsMultiCall": dict(recv=CTR, go=["ContractState accessors", "statedb.GetMultiCallState"], acts=["RdOpenAcc", "RdMulti"], site="vm.go getCode / GetABI; vm_callback.go luaSetRecoveryPoint"),
    "SetMultiCallCode": dict(recv=CTR, go=["statedb.GetMultiCallState"], acts=["RdMulti"], site="vm.go getMultiCallCode (a field of the handle, no chain state)"),
    # -- getters of the embedded *types.State of a ContractState (protobuf getters on the in-memory copy of the account state)
    **{n: dict(recv=CTR, go=["ContractState accessors"], acts=["RdOpenAcc"], site="vm.go getContractCode, vm_callback.go luaGetBalance: promoted from the embedded *types.State")
       for n in ("GetCodeHash", "GetBalanceBigInt", "GetBalance", "GetNonce", "GetStorageRoot")},
    # -- AccountState (an in-memory copy made by state.GetAccountState)
    **{n: dict(recv=ACC, go=["AccountState accessors"], acts=["RdAccountState"], site="vm.go / vm_callback.go: accessors of callState.accState")
       for n in ("ID", "AccountID", "State", "Balance", "Nonce", "CodeHash", "RP", "IsNew", "IsContract", "IsDeploy")},
    # -- package-level functions
    "state.GetAccountState": dict(go=["state.GetAccountState"], acts=["RdAccountState", "RdData", "RdCode"], site="vm_state.go getCallState: state.GetAccountState(id, bs.StateDB)"),
    "state.InitAccountState": dict(go=["state.InitAccountState"], acts=["RdNewBS"], site="vm.go NewVmContextQuery"),
    "state.NewBlockState": dict(go=["state.NewBlockState"], acts=["RdNewBS"], site="chain/chainservice.go (query on a throw-away block state); vm_direct"),
    "statedb.OpenContractState": dict(go=["statedb.OpenContractState"], acts=["RdData", "RdCode"], site="vm_state.go getContractState; vm_callback.go luaSendAmount, luaDeployContract; contract.go Execute"),
    "statedb.OpenContractStateAccount": dict(go=["statedb.OpenContractStateAccount"], acts=["RdOpenAcc", "RdData", "RdCode"], site="vm_state.go getOnlyContractState (reading another contract)"),
    "statedb.GetMultiCallState": dict(go=["statedb.GetMultiCallState"], acts=["RdMulti"], site="vm_callback.go luaDelegateCallContract; contract.go Execute"),
    "statedb.GetSystemAccountState": dict(go=["statedb.GetSystemAccountState"], acts=["RdSys"], site="vm_callback.go luaGetStaking"),
    "statedb.GetNameAccountState": dict(go=["statedb.GetNameAccountState"], acts=["RdName"], site="vm_callback.go luaGetStaking"),
    # -- outside package state: the governance contracts (harness/contract/name/verif_govpure_test.go, package name)
    "system.GetStaking": dict(go=["system.GetStaking"], acts=["GvStaking"], site="vm_callback.go luaGetStaking: system.GetStaking(scs, name.GetAddress(namescs, addr))"),
    "name.GetAddress": dict(go=["name.GetAddress"], acts=["GvStaking", "GvAddress"], site="vm_callback.go luaGetStaking"),
    "name.Resolve": dict(go=["name.Resolve"], acts=["GvResolve"],
                         site="vm_callback.go luaNameResolve; getAddressNameResolved (luaCallContract, luaDelegateCallContract, luaSendAmount, luaGetBalance, luaIsContract, luaDeployContract)"),
    "name.GetOwner": dict(go=["name.GetOwner"], acts=["GvOwner"], site="not called by the VM today (rpc); kept next to GetAddress"),
    # -- same NAME as a method of the state packages, but never called on a state object in contract/
    "Close": dict(foreign=[r"^f$", r"traceFile$"], go=[], acts=[], site="vm.go: *os.File of the call trace (state.ChainStateDB.Close is not reachable from a vmContext)"),
    "MarshalJSON": dict(foreign=[r"^event$"], go=[], acts=[], site="vm.go: types.Event (statedb.Dump.MarshalJSON is a debugging aid)"),
}
STATE_PKGS = ("state", "statedb")
GOV_PKGS = ("name", "system", "enterprise")      # tools/vmguards classify.go govPkgs


def state_methods(repo):
    """Exported methods / functions of packages state and state/statedb of the CURRENT tree: name -> receiver types."""
    meth, funcs = {}, set()
    for pkg, d in (("state", "state"), ("statedb", os.path.join("state", "statedb"))):
        for f in sorted(glob.glob(os.path.join(repo, d, "*.go"))):
            if f.endswith("_test.go"):
                continue
            src = open(f, encoding="utf-8", errors="replace").read()
            for m in re.finditer(r"(?m)^func \(\s*\w*\s*\*?(\w+)\s*\) (\w+)\(", src):
                if m.group(2)[0].isupper():
                    meth.setdefault(m.group(2), set()).add(pkg + "." + m.group(1))
            for m in re.finditer(r"(?m)^func (\w+)\(", src):
                if m.group(1)[0].isupper():
                    funcs.add(pkg + "." + m.group(1))
    return meth, funcs


def binding_crosscheck(model, repo, table):
    """The getters of packages state / statedb the extractor treats as pure in the CURRENT tree, against the table.
    Returns (problems, used: name -> [call sites])."""
    if "pure_calls" not in model or "pure_methods" not in model:
        return ["vmguards.json carries no pure_calls (old extractor?)"], {}
    meth, funcs = state_methods(repo)
    pure_m = set(model["pure_methods"])
    problems, used = [], {}
    for pc in model["pure_calls"] or []:
        name, rt, recv = pc["name"], pc.get("rt") or "", pc.get("recv") or ""
        if "." in name:                                             # package-level function
            if name.split(".")[0] not in STATE_PKGS + GOV_PKGS:
                continue
            if name.split(".")[0] in STATE_PKGS and name not in funcs:
                problems.append("%s: the model treats %s as pure, but the state packages of this tree have no such function" % (pc["src"], name))
            ent = table.get(name)
        else:
            if rt and rt.split(".")[0] not in STATE_PKGS:
                continue                                            # receiver of a known foreign type (os.File, types.Event, big.Int ...)
            if not rt and name not in meth:
                continue                                            # no method of that name in the state packages
            ent = table.get(name)
            if ent is not None and not rt and any(re.search(p, recv) for p in ent.get("foreign", [])):
                continue
            if ent is not None and rt and "recv" in ent and rt not in ent["recv"]:
                ent = None
        if ent is None or not ent.get("go"):
            problems.append("%s: %s%s (receiver %s, type %s) is dropped from the model as read-only but has no entry in READ_BINDING" % (
                pc["src"], name, "" if "." in name else "()", recv or "-", rt or "unknown"))
            continue
        used.setdefault(name, []).append("%s %s [%s]" % (pc["src"], recv or name, ",".join(pc.get("procs") or [])[:60]))
    # belt and braces: the text of contract/*.go (call sites in functions that are in no process of the model)
    names = sorted(n for n in pure_m if n in meth)
    pat_m = re.compile(r"([\w\.\)\]]+)\.(%s)\(" % "|".join(map(re.escape, names))) if names else None
    pat_f = re.compile(r"\b(state|statedb|name|system|enterprise)\.([A-Z]\w*)\(")
    pure_f = set(model.get("pure_pkg_funcs") or [])
    pure_pkgs = set(model.get("pure_gov_pkgs") or [])             # governance packages all of whose functions the model takes for pure
    for f in sorted(glob.glob(os.path.join(repo, "contract", "*.go"))):
        if f.endswith("_test.go"):
            continue
        src_f = open(f, encoding="utf-8", errors="replace").read()
        for ln, line in enumerate(src_f.splitlines(), 1):
            code = line.split("//")[0]
            for m in (pat_m.finditer(code) if pat_m else []):
                if m.group(2) not in table:                         # (receiver types are unknown here: name level only)
                    problems.append("%s:%d: call of %s() on %s: a pure method name of the state packages without an entry in READ_BINDING" % (
                        os.path.basename(f), ln, m.group(2), m.group(1)))
            for m in pat_f.finditer(code):
                q = m.group(1) + "." + m.group(2)
                if m.group(1) in GOV_PKGS and not re.search(r'"github.com/aergoio/aergo/v2/contract/%s"' % m.group(1), src_f):
                    continue                                        # a local variable of that name, not the package
                if (q in pure_f or m.group(1) in pure_pkgs) and q not in table:
                    problems.append("%s:%d: call of %s: pure in classify.go (pkgFuncs / purePkgs) without an entry in READ_BINDING" % (os.path.basename(f), ln, q))
    return sorted(set(problems)), used


def fast_transitions(out):
    """vlib.parse_transitions for lines <<tuple-only view, [flat record], tuple-only view>> with memoised parts."""
    memo, trs = {}, []

    def pv(txt):
        v = memo.get(txt)
        if v is None:
            v = memo[txt] = vlib.parse_value(txt)
        return v
    for line in out.splitlines():
        if not line.startswith('"TR|'):
            continue
        body = line[4:-1].replace('\\"', '"').replace("\\\\", "\\")
        i = body.find("[")
        j = body.find("]", i)
        if i < 4 or j < 0 or not body.startswith("<<") or not body.endswith(">>") or body[i - 2:i] != ", " or body[j + 1:j + 3] != ", ":
            v = vlib.parse_value(body)
            trs.append((v[0], v[1], v[2]))
            continue
        trs.append((pv(body[2:i - 2]), pv(body[i:j + 1]), pv(body[j + 3:-2])))
    return trs


MUT_STEPS = ("PutAcct", "Deploy", "Write", "RdVmLoad")


def purity_plan(trs):
    """TLC's transitions of ReadPurity.tla -> the two graphs the harness replays: per graph the state changing edges as
    walks from the initial state (every edge is the last step of one walk) and the read transitions of every state."""
    def graph(sel_edge, sel_read):
        acts, aidx, states, sidx = [], {}, [], {}

        def sid(s):
            k = json.dumps(s)
            if k not in sidx:
                sidx[k] = len(states)
                states.append(s)
            return sidx[k]

        def aid(a):
            k = json.dumps(a, sort_keys=True)
            if k not in aidx:
                aidx[k] = len(acts)
                acts.append({x: y for x, y in a.items() if x != "lk" and y not in ("", False)})
            return aidx[k]
        edges, reads = [], {}
        for (s, a, d) in trs:
            if sel_read(s, a):
                if s != d:
                    raise vlib.Infra("ReadPurity: read transition %r changes the abstract state" % (a,))
                reads.setdefault(sid(s), []).append(aid(a))
            elif sel_edge(s, a):
                edges.append((sid(s), aid(a), sid(d)))
        return acts, states, edges, reads

    def walks_of(states, edges, init):
        out, path, todo = {}, {init: []}, [init]
        for (s, a, d) in edges:
            out.setdefault(s, []).append((a, d))
        while todo:
            s = todo.pop(0)
            for (a, d) in out.get(s, []):
                if d not in path:
                    path[d] = path[s] + [[a, d]]
                    todo.append(d)
        unreached = [s for s in range(len(states)) if s not in path]
        if unreached:
            raise vlib.Infra("ReadPurity: %d states of the generated graph are not reachable from the initial state" % len(unreached))
        return [[]] + [path[s] + [[a, d]] for (s, a, d) in edges]
    plan = {}
    for part, sel_edge, sel_read in (
            ("purity", lambda s, a: a["name"] in MUT_STEPS, lambda s, a: a["name"].startswith("Rd") and a["name"] != "RdVmLoad"),
            ("cache", lambda s, a: a["name"] in ("CacheAdd", "CacheRemove"), lambda s, a: a["name"] == "CacheLookup"),
            ("gov", lambda s, a: a["name"] == "GovTx", lambda s, a: a["name"].startswith("Gv"))):
        acts, states, edges, reads = graph(sel_edge, sel_read)
        inits = [i for i, s in enumerate(states) if s[4] == 0 and s[6] == 0]
        if len(inits) != 1:
            raise vlib.Infra("ReadPurity: %d initial states in the %s graph" % (len(inits), part))
        plan[part] = dict(acts=acts, reads_at=[reads.get(i, []) for i in range(len(states))], walks=walks_of(states, edges, inits[0]),
                          init=inits[0], n_states=len(states), n_edges=len(edges), n_reads=sum(len(v) for v in reads.values()))
    return plan


def run_purity(c, model, thorough):
    """The dynamic part.  Returns a closure that absorbs the results into the check (called on the main thread)."""
    work = os.path.join(c.work, "purity")
    os.makedirs(work, exist_ok=True)
    t0 = time.time()
    problems, used = binding_crosscheck(model, vlib.REPO, READ_BINDING)
    # the cross-check must be able to fail: without its GetAccountAndProof entry the table does not cover this tree
    cut = {k: v for k, v in READ_BINDING.items() if k != "GetAccountAndProof"}
    cut_problems, _ = binding_crosscheck(model, vlib.REPO, cut)
    uses_proof = any(pc["name"] == "GetAccountAndProof" for pc in model.get("pure_calls") or [])
    if problems:
        raise vlib.Infra("the extracted model relies on state getters that the dynamic part of C20 does not cover (extend READ_BINDING in checks/c20.py, "
                         "spec/vm/ReadPurity.tla and harness/state/verif_pure_test.go):\n" + "\n".join(problems[:30]))
    if uses_proof and not any("GetAccountAndProof" in p for p in cut_problems):
        raise vlib.Infra("binding cross-check self-test failed: a table without GetAccountAndProof was accepted")
    import concurrent.futures

    def warm(pkg, name):
        # compile the harness packages of the CURRENT tree while TLC runs (fills Go's build cache; the binaries that are run
        # are built again by vlib.go_test afterwards); failures are reported by that later build
        try:
            subprocess.run(["go", "test", "-c", "-tags", "verif", "-overlay", vlib.gen_overlay(), "-vet=off", "-o", os.path.join(work, name), pkg],
                           cwd=vlib.REPO, env=vlib.goenv(), capture_output=True, text=True, timeout=1500)
        except Exception:
            pass
        finally:
            try:
                os.remove(os.path.join(work, name))
            except OSError:
                pass
    with concurrent.futures.ThreadPoolExecutor(max_workers=5) as ex:
        ex.submit(warm, "./state/", "warm-state.test")
        ex.submit(warm, "./contract/name/", "warm-name.test")
        f_gen = ex.submit(vlib.tlc, SPEC_DIR, "ReadPurity", "Gen_ReadPurity_big.cfg" if thorough else "Gen_ReadPurity.cfg", os.path.join(work, "gen"), workers=1, timeout=1800)
        f_st = [(cfg, prop, ex.submit(vlib.tlc, SPEC_DIR, "ReadPurity", cfg, os.path.join(work, cfg[:-4]), workers=1, timeout=600))
                for cfg, prop in (("ST_ReadPurity_lookup.cfg", "ReadsPure"), ("ST_ReadPurity_cache.cfg", "CacheIsolated"))]
        gen = f_gen.result()
        st = [(cfg, prop, f.result()) for cfg, prop, f in f_st]
    for cfg, prop, r in st:
        if r.violation != prop:
            raise vlib.Infra("ReadPurity self-test: %s has to violate %s, TLC says %s\n%s" % (cfg, prop, r.violation, r.out[-1500:]))
    if not gen.ok:
        raise vlib.Infra("TLC run on ReadPurity.tla (%s) did not come out clean: %s\n%s" % (gen.cfg, gen.violation, "\n".join(
            l for l in gen.out.splitlines() if not l.startswith('"TR|'))[-3000:]))
    trs = fast_transitions(gen.out)
    if len(trs) != gen.generated - 1:
        raise vlib.Infra("ReadPurity: %d transitions printed, TLC generated %d states" % (len(trs), gen.generated))
    plan = purity_plan(trs)
    # every entry of the table is exercised by transitions TLC generated
    seen_acts = {a["name"] for (s, a, d) in trs}
    missing = sorted({"%s: no %s transition generated" % (g, a) for g, e in READ_BINDING.items() for a in e.get("acts", []) if a not in seen_acts})
    if missing:
        raise vlib.Infra("ReadPurity.tla does not generate the reads the binding table names:\n" + "\n".join(missing))
    inp, outp = os.path.join(work, "in.json"), os.path.join(work, "out.json")
    json.dump(dict(purity={k: plan["purity"][k] for k in ("acts", "reads_at", "walks", "init")},
                   cache={k: plan["cache"][k] for k in ("acts", "reads_at", "walks", "init")}, sample=24 if thorough else 12), open(inp, "w"))
    ginp, goutp = os.path.join(work, "gov-in.json"), os.path.join(work, "gov-out.json")
    json.dump(dict(gov={k: plan["gov"][k] for k in ("acts", "reads_at", "walks", "init")}, salts=24 if thorough else 6), open(ginp, "w"))
    t1 = time.time()
    with concurrent.futures.ThreadPoolExecutor(max_workers=2) as ex:
        f_gov = ex.submit(vlib.go_test, "./contract/name/", "^TestVerifGovPurity$", env={"VERIF_IN": ginp, "VERIF_OUT": goutp, "VERIF_SEED": c.seed, "VERIF_TIER": c.tier},
                          timeout=1200, cwd=os.path.join(work, "gov-cwd"))
        rc, out = vlib.go_test("./state/", "^TestVerifReadPurity$", env={"VERIF_IN": inp, "VERIF_OUT": outp, "VERIF_SEED": c.seed, "VERIF_TIER": c.tier}, timeout=2400)
        grc, gout = f_gov.result()
    t2 = time.time()

    def absorb():
        c.add_tlc(gen, "ReadPurity.tla: reads leave the working state unchanged, cache lookups are per block state; complete transition list = test plan")
        for cfg, prop, r in st:
            c.notes.append("ReadPurity self-test: %s violates %s as it has to" % (cfg, prop))
        r = c.absorb_go(outp, out)
        if rc != 0 and not r.get("violations"):
            raise vlib.Infra("read-purity harness failed:\n" + out[-3000:])
        calls = dict((r.get("extra") or {}).get("go_calls") or {})
        rg = c.absorb_go(goutp, gout)
        if grc != 0 and not rg.get("violations"):
            raise vlib.Infra("governance read-purity harness failed:\n" + gout[-3000:])
        calls.update((rg.get("extra") or {}).get("go_calls") or {})
        if not r.get("violations") and not rg.get("violations"):
            idle = sorted({"%s -> %s" % (g, call) for g, e in READ_BINDING.items() for call in e.get("go", []) if not calls.get(call)})
            if idle:
                raise vlib.Infra("the harness did not execute Go calls the binding table names:\n" + "\n".join(idle))
        c.traces_validated += len(plan["purity"]["walks"]) + len(plan["cache"]["walks"]) + (rg.get("extra") or {}).get("gov_walks", 0)
        c.extra["read_purity"] = dict(
            binding={g: dict(go=e.get("go"), acts=e.get("acts"), site=e.get("site"), call_sites_now=used.get(g, [])[:12]) for g, e in sorted(READ_BINDING.items())},
            model=dict(states=gen.distinct, transitions=len(trs), cfg=gen.cfg),
            purity=dict(states=plan["purity"]["n_states"], state_changing_edges=plan["purity"]["n_edges"], read_transitions=plan["purity"]["n_reads"],
                        twin_runs=len(plan["purity"]["walks"])),
            cache=dict(states=plan["cache"]["n_states"], edges=plan["cache"]["n_edges"], lookups=plan["cache"]["n_reads"], walks=len(plan["cache"]["walks"])),
            governance=dict(states=plan["gov"]["n_states"], edges=plan["gov"]["n_edges"], reads=plan["gov"]["n_reads"],
                            twin_runs=(rg.get("extra") or {}).get("gov_walks", 0)),
            go_calls=calls, wall_s=dict(tlc_and_plan=round(t1 - t0, 1), build_and_replay=round(t2 - t1, 1)))
        return not r.get("violations") and not rg.get("violations")
    return absorb


def build_extractor(c):
    exe = os.path.join(c.work, "vmguards")
    r = subprocess.run(["go", "build", "-o", exe, "."], cwd=TOOL_DIR, env=vlib.goenv(), capture_output=True, text=True, timeout=900)
    if r.returncode != 0 or not os.path.exists(exe):
        raise vlib.Infra("extractor does not build:\n" + (r.stdout + r.stderr)[-3000:])
    return exe


def extract(exe, repo, outdir):
    """Returns (rc, text, model dict or None).  rc 0 = complete model, 3 = unknown helper / unsupported construct."""
    os.makedirs(outdir, exist_ok=True)
    r = subprocess.run([exe, "-repo", repo, "-out", outdir], capture_output=True, text=True, timeout=600)
    model = None
    jp = os.path.join(outdir, "vmguards.json")
    if os.path.exists(jp):
        model = json.load(open(jp))
    return r.returncode, r.stdout + r.stderr, model


def node_of(model, proc, pc):
    for p in model["procs"]:
        if p["name"] == proc and 1 <= pc <= len(p["nodes"]):
            return p["nodes"][pc - 1]
    return None


def replay_of(res, model):
    """TLC counterexample -> list of steps with source lines (the replay)."""
    steps = []
    viol = None
    for _act, st in res.error_trace:
        la = st.get("lastAct") or {}
        viol = st.get("viol") or viol
        e = {"step": la.get("name"), "proc": la.get("proc"), "isQuery": st.get("isQuery"), "nestedView": st.get("nestedView"), "depth": st.get("depth")}
        if la.get("name") == "Step":
            n = node_of(model, la.get("proc"), la.get("pc", 0)) or {}
            if n.get("k") in ("nd",) and not n.get("src"):
                continue                     # merged uninterpreted branches carry no source position
            e.update(node=n.get("k"), arg=n.get("a"), src=n.get("src"), text=n.get("txt", ""))
        elif la.get("name") == "LuaInvoke":
            e.update(amount_sign=la.get("pc"), stmt=la.get("k"))
        steps.append(e)
    return steps, viol


def tlc_verdict(c, res, model, what):
    """Clean -> True.  Property violated on the extracted model -> registers the violation, returns False."""
    c.add_tlc(res, what)
    if res.ok:
        return True
    if res.violation in PROPS and res.error_trace:
        steps, viol = replay_of(res, model)
        viol = viol or {}
        sig = {"kind": viol.get("kind"), "proc": viol.get("proc"), "class": viol.get("what"), "property": res.violation}
        path = " -> ".join("%s@%s" % (s.get("proc"), s["src"]) for s in steps if s.get("src") and s.get("node") in
                           ("test", "mut", "flag", "sqlopen", "sqlstep", "exec", "cb", "run", "mkrs"))
        last = steps[-1] if steps else {}
        last_src = next((s_.get("src") for s_ in reversed(steps) if s_.get("src")), None)
        text = ("%s violated on the model extracted from %s: %s in %s at %s (%s) with isQuery=%s nestedView=%s; path: %s" % (
            res.violation, vlib.REPO, viol.get("kind"), viol.get("proc"), viol.get("src") or ("after " + str(last_src)), viol.get("what"),
            last.get("isQuery"), last.get("nestedView"), path[-900:]))
        c.violation(sig, {"property": res.violation, "violation": viol, "cfg": res.cfg, "steps": steps}, text)
        return False
    raise vlib.Infra("TLC run '%s' (%s) gave no verdict: %s\n%s" % (what, res.cfg, res.violation, res.out[-3000:]))


def coverage(c, gen, model):
    """Non-vacuity: every guard was evaluated both ways, every mutating primitive was executed (outside read-only contexts)."""
    seen = {}
    n = 0
    for (s, a, d) in vlib.parse_transitions(gen.out):
        if a.get("name") != "Step":
            if a.get("name") == "LuaInvoke":
                c.count(("invoke", a.get("proc"), a.get("pc"), a.get("k")))
            continue
        n += 1
        key = (a["proc"], a["pc"])
        seen.setdefault(key, set()).add(d)
        c.count(("node", a["proc"], a["pc"], d, s[0], 1 if s[1] > 0 else 0))
    relevant = set(model["go_callbacks"]) | set(model["c_api"]) | {"executor.call", "lj_view_wrapper"}
    # per source position (a guard inlined into several processes is one guard).  Only "front" guards count: tests
    # of a flag that are not preceded by another test of the same flag (a test after the guard sees one value only).
    gsrc, msrc = {}, {}
    for p in model["procs"]:
        if p["name"] not in relevant:
            continue
        nodes = p["nodes"]
        front = set()
        for atom in ("isQuery", "nestedView"):
            seen_n, todo = set(), [p["entry"]]
            while todo:
                i = todo.pop()
                if i <= 0 or i in seen_n:
                    continue
                seen_n.add(i)
                nd = nodes[i - 1]
                if nd["k"] == "test" and nd["a"] == atom:
                    front.add(i)
                    continue
                todo += [nd["t"], nd["f"]]
        for i, nd in enumerate(nodes, 1):
            outs = seen.get((p["name"], i), set())
            if i in front:
                g = gsrc.setdefault(nd["src"] + " " + nd["a"], set())
                if nd["t"] in outs:
                    g.add(True)
                if nd["f"] in outs:
                    g.add(False)
            if nd["k"] in ("mut", "sqlstep"):
                msrc[nd["src"]] = msrc.get(nd["src"], False) or (p["name"], i) in seen
    missing = ["guard %s evaluated only to %s" % (k, sorted(v)) for k, v in sorted(gsrc.items()) if v != {True, False}]
    missing += ["mutating primitive at %s never executed" % k for k, v in sorted(msrc.items()) if not v]
    guards, muts = len(gsrc), len(msrc)
    c.extra["guards_covered_both_ways"] = guards - len([m for m in missing if m.startswith("guard")])
    c.extra["mutating_primitives_executed"] = muts - len([m for m in missing if m.startswith("mut")])
    return n, missing


def self_test_plan(c, rng, k):
    """Binding self-test: k built-in mutations (chosen by the seed) that apply to this tree."""
    src = os.path.join(vlib.REPO, "contract")
    order = list(SELF_MUTATIONS)
    rng.shuffle(order)
    plan = []
    for name, fn, pat, rep in order:
        if len(plan) >= k:
            break
        p = os.path.join(src, fn)
        if not os.path.exists(p):
            continue
        new, cnt = re.subn(pat, rep, open(p, encoding="utf-8", errors="replace").read(), count=1)
        if cnt != 1:
            c.notes.append("self-test mutation %s does not apply to this tree (skipped)" % name)
            continue
        plan.append((name, fn, new))
    if not plan:
        raise vlib.Infra("binding self-test: no built-in mutation applies to this tree")
    return plan


def self_test_one(c, exe, name, fn, new):
    """A mutated scratch copy of contract/ must be rejected by the same pipeline (extractor + TLC)."""
    src = os.path.join(vlib.REPO, "contract")
    root = os.path.join(c.work, "st-" + name)
    cdir = os.path.join(root, "contract")
    os.makedirs(cdir)
    for f in os.listdir(src):
        if f.endswith((".go", ".c")) and not f.endswith("_test.go") and os.path.isfile(os.path.join(src, f)):
            shutil.copy(os.path.join(src, f), os.path.join(cdir, f))
    open(os.path.join(cdir, fn), "w").write(new)
    rc, out, model = extract(exe, root, os.path.join(root, "gen"))
    if rc not in (0, 3) or model is None:
        raise vlib.Infra("self-test %s: extractor failed:\n%s" % (name, out[-2000:]))
    res = vlib.tlc(SPEC_DIR, "MC_ViewNesting", "ST_ViewNesting.cfg", os.path.join(root, "tlc"), workers=3, timeout=900,
                   files={"VmGuards.tla": os.path.join(root, "gen", "VmGuards.tla")})
    if res.violation not in PROPS:
        raise vlib.Infra("binding self-test failed: source mutation '%s' was not rejected (%s)\n%s" % (name, res.violation, res.out[-1500:]))
    shutil.rmtree(root, ignore_errors=True)
    return "self-test: source mutation '%s' rejected (%s)" % (name, res.violation)


def run(c):
    rng = random.Random(c.seed)
    thorough = c.tier == "thorough"
    c.rule = ("a case is one executed node of an extracted control-flow graph in one context (read-only flags, successor) in the coverage run, or one host-API "
              "invocation shape (function, amount sign, statement kind); distinct = distinct (process, node, successor, isQuery, view depth > 0).  Dynamic part: a "
              "case is one read transition of ReadPurity.tla executed on the real state package (read primitive, target, key, root, way of opening, target class, "
              "expected value), one cache lookup (block state, kind, key, expected version, preceding operation) or one twin run")
    c.assumptions = ["the extractor tools/vmguards and its classification tables are trusted (model extraction: the VM cannot be built without LuaJIT)",
                     "hardfork version 5 (current); amounts of any sign; call chains of <= %d Lua frames" % (4 if thorough else 2),
                     "restoring a recovery point / dropping events back to a count taken inside the read-only section is the identity when nothing was written in between",
                     "sqlite refuses writes on a read-only connection; LuaJIT brackets every view function with lj_internal_view_start/_end, also on errors",
                     "getLuaExecContext does not fail while a contract function runs", "TLC 1.8.0",
                     "dynamic part: memorydb stands for the disk store; blocks of <= %d transactions before the reads, <= %d cache operations; the VM's getCode / GetABI "
                     "call sequence is transcribed into the harness (deployed code = JSON of its ABI)" % ((3, 3) if thorough else (2, 2))]
    if os.environ.get("VERIF_REPLAY"):
        c.notes.append("replay %s: a C20 replay is a path through source lines; re-checking it = re-extracting the model from the "
                       "current tree and re-running TLC, which is what this run does" % os.environ["VERIF_REPLAY"])
    exe = build_extractor(c)
    gen_dir = os.path.join(c.work, "gen")
    rc, out, model = extract(exe, vlib.REPO, gen_dir)
    vlib.log(out.strip()[-1500:])
    if rc == 3:
        raise vlib.Infra("the model cannot be extracted completely from this tree (update tools/vmguards/classify.go):\n" + out[-3000:])
    if rc != 0 or model is None:
        raise vlib.Infra("extractor failed (rc=%d):\n%s" % (rc, out[-3000:]))
    files = {"VmGuards.tla": os.path.join(gen_dir, "VmGuards.tla")}
    c.extra["extracted"] = dict(processes=len(model["procs"]), go_callbacks=len(model["go_callbacks"]), c_api=len(model["c_api"]),
                                nodes=sum(len(p["nodes"]) for p in model["procs"]), flag_writes=model.get("flag_writes") or [], facts=model["facts"],
                                unknown_after_mutation=[u for u in (model.get("unknowns") or []) if not u["before_mut"]])
    # all TLC runs are independent: start them together (few workers each, the machine is shared)
    import concurrent.futures
    cfg = "MC_ViewNesting_big.cfg" if thorough else "MC_ViewNesting.cfg"
    plan = self_test_plan(c, rng, 5 if thorough else 2)
    with concurrent.futures.ThreadPoolExecutor(max_workers=5) as ex:
        f_pur = ex.submit(run_purity, c, model, thorough)
        f_mc = ex.submit(vlib.tlc, SPEC_DIR, "MC_ViewNesting", cfg, os.path.join(c.work, "mc"), workers=6, timeout=3000, files=files)
        f_gen = ex.submit(vlib.tlc, SPEC_DIR, "MC_ViewNesting", "Gen_ViewNesting.cfg", os.path.join(c.work, "cov"), workers=1, timeout=1500, files=files)
        f_st = [ex.submit(self_test_one, c, exe, *pl) for pl in plan]
        f_obs = ex.submit(vlib.tlc, SPEC_DIR, "MC_ViewNesting", "Obs_ViewNesting.cfg", os.path.join(c.work, "obs"), workers=3,
                          timeout=1500, files=files) if thorough else None
        # 0. the dynamic part (real state package): violations are registered, an infrastructure problem is kept for later
        pur_err = None
        try:
            f_pur.result()()
        except vlib.Infra as e:
            pur_err = e
        # 1. exhaustive check of the extracted model
        res = f_mc.result()
        if not tlc_verdict(c, res, model, "read-only contexts never reach a mutating primitive; view nesting balanced (extracted model)"):
            return
        if pur_err is not None:
            raise pur_err
        c.exhaustive = True
        c.extra["exhaustive_note"] = ("exhaustive over the extracted control-flow graphs (every path of every exported callback / Lua-visible C function), all "
                                      "context kinds, amount signs {-1,0,1}, call chains of <= %d Lua frames; contract code fully nondeterministic" % (4 if thorough else 2))
        # 2. coverage / non-vacuity
        gen = f_gen.result()
        c.require_ok(gen, "node coverage of the extracted graphs (call chains of 1 frame)")
        n, missing = coverage(c, gen, model)
        if n < 500:
            raise vlib.Infra("coverage run printed too few transitions: %d" % n)
        if missing:
            raise vlib.Infra("the extracted model is (partly) vacuous:\n" + "\n".join(missing[:20]))
        for p in model["procs"]:
            if p["kind"] == "gocb" and len(p["nodes"]) > 1:
                c.sample({"process": p["name"], "nodes": len(p["nodes"]),
                          "guards": [n_["src"] for n_ in p["nodes"] if n_["k"] == "test" and n_["a"] in ("isQuery", "nestedView")][:4],
                          "mutations": [n_["src"] + " " + n_["a"] for n_ in p["nodes"] if n_["k"] == "mut"][:4]})
        # 3. binding self-test
        for f in f_st:
            c.notes.append(f.result())
        # 4. observation (no verdict): the frozen hardfork-4 behaviour
        if f_obs is not None:
            obs = f_obs.result()
            c.add_tlc(obs, "observation: hardfork 4 with negative amounts (no verdict)")
            if obs.violation in PROPS:
                steps, viol = replay_of(obs, model)
                c.notes.append("observation (hardfork 4 only, not a verdict): %s in %s at %s -- a negative decimal amount passes transformAmount and "
                               "sendBalance before hardfork 5" % ((viol or {}).get("kind"), (viol or {}).get("proc"), (viol or {}).get("src")))
            elif obs.ok:
                c.notes.append("observation: hardfork 4 with negative amounts is clean")
