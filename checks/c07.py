"""C07 — fork choice: reorganisation reaches the longest valid branch and its exact state (spec/chain/ChainDB.tla)."""
import os, random
import vlib
from checks import chaindb_common as cc

LEVEL = "model_checking"
MANIFEST = dict(
    category=LEVEL, design_ref="DESIGN.md §5 C07",
    text="ChainDB.tla states LongestValidWins (no stored, fully valid branch is strictly longer than the main chain unless it forks below the LIB), "
         "NoDisplacement (the best block changes only to a strictly longer, fully valid chain forking at or above the LIB, and exactly the "
         "transactions that were only on the abandoned branch are offered back to the pool) and LibNeverUndone; TLC checks them exhaustively over "
         "block trees with 2-3 competing branches, every arrival interleaving incl. children before parents, an invalid block at several positions and "
         "LIB raises; an edge cover of the TLC graph is replayed on a real node and, at the end of each behaviour, the complete world state (walk of "
         "every key of the account trie) is compared with a reference node that only ever received the winning branch.",
    note="VM stub for contract execution (not used by these blocks); stub consensus with harness-controlled LIB; verifdb in-memory store; "
         "blocks contain plain transfers only",
    technique="TLA+/TLC exhaustive model of fork choice + replay of an edge cover of the TLC graph on the real chain service + reference-node state comparison")


def failed_then_switched(b, parent):
    def anc(x):
        out = set()
        while x in parent:
            x = parent[x]
            out.add(x)
        return out
    err, prev = False, "g"
    for s in b["steps"]:
        best = s["dst"]["best"]
        if s["res"] == "error":
            err = True
        elif err and best != prev and prev not in anc(best):
            return True
        prev = best
    return False


def run(c):
    rng = random.Random(c.seed)
    c.rule = ("behaviours = edge cover of the complete TLC transition graph of ChainDB.tla over a block tree (every transition on >=1 path); "
              "a case is one delivered step; distinct = distinct (validity assignment, invalidation kind, arrival prefix)")
    c.assumptions = ["stub consensus (LIB set by the harness), in-memory store, transfers only", "TLC 1.8.0"]
    for cfg, what in (("MC_ChainDB.cfg", "T1: 2 branches forking at height 1, shared tx, 5 validity assignments"),
                      ("MC_ChainDB_dup.cfg", "T0 with duplicates (each block may arrive twice)")):
        c.require_ok(vlib.tlc(cc.SPEC_DIR, "MC_ChainDB", cfg, c.work, timeout=900), what)
    if c.tier == "thorough":
        c.require_ok(vlib.tlc(cc.SPEC_DIR, "MC_ChainDB", "MC_ChainDB_T2.cfg", c.work, timeout=1500), "T2: three branches")
    trees = [("T1", 1, 700), ("T3", 1, 260)] if c.tier == "quick" else [("T0", 1, None), ("T1", 1, None), ("T2", 1, 2500), ("T3", 1, 2000)]
    for tree, arr, maxp in trees:
        if tree == "T3":
            # T3 (a branch that continues both as an invalid and as a valid suffix): the whole edge cover is large; the
            # behaviours in which an arrival fails and a LATER arrival still switches the node to another branch come first
            behs, ntr, nst = cc.behaviours(c, tree, max_arrivals=arr, libs=(1,), rng=rng, timeout=1500)
            first = [b for b in behs if failed_then_switched(b, cc.TREES[tree]["parent"])]
            rest = [b for b in behs if b not in first]
            rng.shuffle(first)
            rng.shuffle(rest)
            nfirst = min(len(first), (maxp * 3) // 5)
            behs = first[:nfirst] + rest[:maxp - nfirst]
            c.notes.append("tree T3: %d behaviours with a failed arrival followed by a branch switch, %d replayed" % (len(first), nfirst))
        else:
            behs, ntr, nst = cc.behaviours(c, tree, max_arrivals=arr, libs=(1,) if tree == "T0" else (1, 2), rng=rng, max_paths=maxp, timeout=1500)
        c.notes.append("tree %s: %d transitions, %d states, %d behaviours" % (tree, ntr, nst, len(behs)))
        cc.replay(c, tree, behs, cc.C07_KINDS, reference=True, nshards=8)
        c.traces_validated += len(behs)
    c.exhaustive = True
