"""C14 — admission totality: untrusted transactions never crash a node.
spec/admission/Admission.tla; binding: every (world, sender, shape) TLC enumerates is concretised and sent through
mempool.verifyTx -> mempool.validateTx -> chain.executeTx of the real code under recover() (harness/mempool).
spec/admission/EnterpriseConf.tla (stateful part): the storage of aergo.enterprise after every history of admitted
transactions; every transition replayed through the same entry points on a real state DB (TestVerifEntConf)."""
import json, os, shutil, subprocess, time
import vlib

LEVEL = "model_checking"
MANIFEST = dict(
    category=LEVEL, design_ref="DESIGN.md §5 C14, §6-b",
    text="Admission.tla models the three layers an untrusted transaction passes (types.Validate + signature, the pool's validateTx with the "
         "system/name/enterprise validators, block execution) as actions over an abstract shape grammar (envelope field classes x JSON call "
         "name x argument-class lists x sender/chain context); every layer has the outcomes accept/reject (ok/err/skip for execution) and no panic "
         "outcome.  TLC checks the design exhaustively (Total, AdmittedExecutes, LayersInOrder, termination) and enumerates every shape; the harness "
         "turns each shape into several seeded concrete transactions, delivers them through a protobuf round trip to the real MemPool.verifyTx, "
         "MemPool.validateTx and, for everything the real pool admits, chain.NewTxExecutor/executeTx on a real BlockState in producer and validator "
         "mode, all under recover(); after a successfully executed transaction the block is committed, the node's state readers are run and a probe "
         "transaction per governance call is sent through all layers again (after a vote also a plain transfer with gas limit 0, admitted with the "
         "parameters the running node then holds).  A panic is a violation; which rejection is returned is not compared.  "
         "EnterpriseConf.tla (stateful part) models the storage of aergo.enterprise as the code keeps it: per conf key the serialised bytes as a "
         "sequence of atoms (ON/OFF, then separator + value per value; a value is a sequence over an alphabet holding the separator backslash, the "
         "colon, base64/non-base64, address/name/non-address, well-formed/malformed list entries, the empty value), every read through Deserialize = "
         "strings.Split(data, sep)[1:]; actions = the 96 transactions of an alphabet (set/append/remove/enableConf for every key, append/removeAdmin, "
         "changeCluster, transfer; two senders) admitted by the transcribed ValidateEnterpriseTx + whitelist and executed; TLC checks Total (no "
         "validator reaches an undefined index whatever admitted transactions stored), ReadersDefined, RoundTrip (what an admitted conf transaction "
         "set is what is read back) over every history of <= 3 (quick) / <= 4 (thorough) transactions, and must find Total violated when the "
         "separator check is removed (self-test).  The harness reaches every enumerated state on a real state DB through the real pool and executor "
         "and sends every transaction of the alphabet through verifyTx, validateTx, executeTx (commit) and the readers (GetAdmin, GetConf, "
         "mempool.setStateDB, p2p list.RefineList): a panic or a lost/changed value on read-back is a violation; the model's accept/reject and "
         "successor bytes are compared with the contract storage and counted.",
    note="states of the sender classes are built by the real executor; contract VM replaced by the overlay stub (governance does not use it); "
         "fee delegation answered by a stand-in for the chain service actor over the VM stub; byte-level coverage is sampled per class",
    technique="TLA+/TLC exhaustive enumeration of an abstract input grammar with per-layer outcome model; concretisation of every enumerated "
              "case into the real entry points under recover(); two-transaction sequences (executed transaction, then probes) on the committed state")
SPEC_DIR = os.path.join(vlib.SPEC, "admission")

FIELDS = ["w", "s", "ty", "rc", "ac", "am", "pr", "gl", "no", "ci", "hs", "sg", "pk", "op", "ar"]


def tla_line(line, tag):
    """'"CS|<<\\"a\\", <<\\"b\\">>>>"' -> ["a", ["b"]] (tuples of strings only: parsed by json)."""
    body = line[len(tag) + 1:-1].replace('\\"', '"').replace("\\\\", "\\")
    return body


def parse_cases(out):
    cases, probes, worlds = [], None, None
    for line in out.splitlines():
        if line.startswith('"CS|'):
            v = json.loads(tla_line(line, "CS|").replace("<<", "[").replace(">>", "]"))
            c = dict(zip(FIELDS, v[:15]))
            c["pd"] = v[15:18]
            cases.append(c)
        elif line.startswith('"PB|') and probes is None:
            probes = vlib.parse_value(tla_line(line, "PB|"))
        elif line.startswith('"WD|') and worlds is None:
            worlds = vlib.parse_value(tla_line(line, "WD|"))
    return cases, probes, worlds


# ---------------------------------------------------------------- EnterpriseConf.tla: stored state of aergo.enterprise

EC_WORLD = {"name": "raft3", "public": False, "consensus": "raft", "fork": 3, "lowmin": False}
EC_KEYS = ["RPC", "ACCW", "P2PW", "P2PB"]


def ec_parse(out, maxlen):
    """TR| lines of Gen_EnterpriseConf*.cfg -> input of TestVerifEntConf: ops, states (0 = initial), per expanded state
    the outcome and successor of every op, a shortest history to every state."""
    ops, opidx, states, stidx, raw = [], {}, [], {}, []

    def sid(v):
        k = json.dumps(v)
        if k not in stidx:
            stidx[k] = len(states)
            states.append({"store": dict(zip(EC_KEYS, v[:4])), "admins": v[4]})
        return stidx[k]

    for line in out.splitlines():
        if line.startswith('"IS|') and not states:
            sid(json.loads(tla_line(line, "IS|").replace("<<", "[").replace(">>", "]")))      # state 0 = the initial state
        if not line.startswith('"TR|'):
            continue
        try:
            v = json.loads(tla_line(line, "TR|").replace("<<", "[").replace(">>", "]"))
            src, (op, outc), dst = v
        except ValueError as e:
            raise vlib.Infra("EnterpriseConf generation: unreadable line %r (%s)" % (line[:200], e))
        if not states:
            raise vlib.Infra("EnterpriseConf generation: no IS| line before the transitions")
        raw.append((sid(src), json.dumps(op), op, outc, sid(dst)))
    if not raw:
        raise vlib.Infra("EnterpriseConf generation printed no transition")
    for k in sorted({r[1] for r in raw}):
        o = json.loads(k)
        opidx[k] = len(ops)
        ops.append({"op": o[0], "who": o[1], "key": o[2], "vals": o[3], "flag": o[4] == "true", "addr": o[5]})
    trans = [None] * len(states)
    for s, k, op, outc, d in raw:
        if outc not in ("accept", "reject"):
            raise vlib.Infra("EnterpriseConf generation: outcome %r in the design" % outc)
        if trans[s] is None:
            trans[s] = [None] * len(ops)
        t = [1 if outc == "accept" else 0, d]
        if trans[s][opidx[k]] not in (None, t):      # a state is printed once per history length it is reached at
            raise vlib.Infra("EnterpriseConf generation: two different transitions for state %d op %s" % (s, k))
        trans[s][opidx[k]] = t
    depth, path, queue = {0: 0}, {0: [0, 0]}, [0]
    while queue:
        s = queue.pop(0)
        if trans[s] is None:
            continue
        for oi, (a, d) in enumerate(trans[s]):
            if d not in depth:
                depth[d], path[d] = depth[s] + 1, [s, oi]
                queue.append(d)
    for s in range(len(states)):
        if s not in depth:
            raise vlib.Infra("EnterpriseConf generation: state %d is not reachable from the first printed state" % s)
        exp = trans[s] is not None
        if exp and any(x is None for x in trans[s]):
            raise vlib.Infra("EnterpriseConf generation: state %d lacks a transition for some op" % s)
        if exp != (depth[s] < maxlen):
            raise vlib.Infra("EnterpriseConf generation: state %d at depth %d expanded=%s with histories <= %d" % (s, depth[s], exp, maxlen))
    return {"world": EC_WORLD, "ops": ops, "states": states, "trans": trans, "path": [path[s] for s in range(len(states))],
            "depth": [depth[s] for s in range(len(states))], "maxlen": maxlen, "offcap": 400}


def build_harness(c):
    """vlib.go_test builds and runs in one call; the two harnesses of this check live in the same test binary, which is
    built once per run (from the current tree, through the overlay) while TLC is running."""
    ov = vlib.gen_overlay()
    exe = os.path.join(c.work, "mempool-%d.test" % os.getpid())
    r = subprocess.run(["go", "test", "-c", "-tags", "verif", "-overlay", ov, "-vet=off", "-o", exe, "./mempool/"], cwd=vlib.REPO,
                       env=vlib.goenv(None), capture_output=True, text=True, timeout=1800)
    if r.returncode != 0 or not os.path.exists(exe):
        raise vlib.Infra("harness does not build (./mempool/):\n%s" % (r.stdout + r.stderr)[-4000:])
    return exe


def run_harness(c, exe, run, env, tag, timeout=3000):
    cwd = os.path.join(c.work, "run_" + tag)
    os.makedirs(cwd, exist_ok=True)
    env = dict(env, TMPDIR=cwd)
    try:
        r = subprocess.run([exe, "-test.run", run, "-test.timeout", "%ds" % timeout, "-test.count", "1"], cwd=cwd, env=vlib.goenv(env),
                           capture_output=True, text=True, timeout=timeout + 60)
    except subprocess.TimeoutExpired:
        raise vlib.Infra("harness timed out: %s" % run)
    finally:
        shutil.rmtree(cwd, ignore_errors=True)
    return r.returncode, r.stdout + r.stderr


def ec_pipeline(c, exe_future, cfg, maxlen, tag):
    """generation run, then the harness on it (runs beside the Admission runs)"""
    t0 = time.time()
    gen = vlib.tlc(SPEC_DIR, "MC_EnterpriseConf", cfg, os.path.join(c.work, "tlc_" + tag), workers=4, timeout=2400)
    if not gen.ok:
        return gen, None, None, None
    inp = ec_parse(gen.out, maxlen)
    inpath = os.path.join(c.work, "entconf_%s_in.json" % tag)
    json.dump(inp, open(inpath, "w"))
    outpath = os.path.join(c.work, "entconf_%s_out.json" % tag)
    rc, output = run_harness(c, exe_future.result(), "^TestVerifEntConf$", {"VERIF_IN": inpath, "VERIF_OUT": outpath, "VERIF_SEED": c.seed,
                             "VERIF_TIER": c.tier}, "ec_" + tag)
    stats = {"ops": len(inp["ops"]), "states": len(inp["states"]), "expanded": sum(1 for t in inp["trans"] if t is not None),
             "histories_up_to": maxlen, "wall_s": round(time.time() - t0, 1)}
    return gen, (rc, output, outpath), stats, inp


def run(c):
    quick = c.tier == "quick"
    c.rule = ("one case = one (world, sender class, transaction shape) enumerated by TLC from Admission.tla, in its seeded concretisations (1 quick, 2 thorough), sent "
              "through verifyTx, validateTx and (if really admitted) executeTx in both execution modes; plus, after every successfully executed "
              "case, the state readers and the probe transactions of the same contract on the committed state (next block and a day later); plus seeded byte-level mutations of "
              "governance payloads; plus one case per (enterprise storage state reachable in fewer than 3 (quick) / 4 (thorough) transactions of the "
              "EnterpriseConf alphabet, transaction of the alphabet), sent through the same layers with commit, readers and round-trip comparison; "
              "distinct = distinct (world, sender, shape) + distinct (state, transaction)")
    c.assumptions = ["in-memory key-value store (aergo-lib memorydb) stands for the disk store",
                     "pure-Go stub for the contract VM (overlay); governance transactions do not reach it",
                     "the pool asks a stand-in chain service (same code as chain.ChainWorker, VM stub) whether a contract pays the fee",
                     "every class of the abstract grammar is sampled by a few seeded concrete values (DESIGN §7)",
                     "TLC 1.8.0"]
    # 1. design-level checks and 2. enumeration of the cases with the specification's outcome per layer (independent TLC runs)
    from concurrent.futures import ThreadPoolExecutor
    jobs = [("MC_Admission.cfg" if quick else "MC_Admission_big.cfg", None,
             "Admission design: every shape gets an outcome at every layer it reaches; admitted => executed; layers in order; no deadlock"),
            ("MC_Admission_seq.cfg", 4, "Admission design, two-transaction behaviours (every executed transaction followed by every probe, now or a day later)"),
            ("Gen_Admission.cfg" if quick else "Gen_Admission_big.cfg", 1, "Admission case enumeration")]
    ecjobs = [("MC_EnterpriseConf.cfg" if quick else "MC_EnterpriseConf_big.cfg", 2 if quick else 6,
               "EnterpriseConf design: over every history of <= %d admitted-or-refused enterprise transactions no validator reaches an undefined index "
               "(Total, ReadersDefined) and what a conf transaction set is what is read back (RoundTrip, RoundTripState, Frame)" % (3 if quick else 4)),
              ("MC_EnterpriseConf_nosep.cfg", 2, "self-test of the EnterpriseConf model: without the separator check TLC must find Total violated")]
    ecgens = [("Gen_EnterpriseConf.cfg", 3, "histories3")] if quick else [("Gen_EnterpriseConf_big.cfg", 4, "histories4")]
    with ThreadPoolExecutor(8) as ex:
        exe = ex.submit(build_harness, c)
        futs = [ex.submit(vlib.tlc, SPEC_DIR, "MC_Admission", cfg, os.path.join(c.work, "tlc%d" % i), workers=w, timeout=2400)
                for i, (cfg, w, _) in enumerate(jobs)]
        ecfuts = [ex.submit(vlib.tlc, SPEC_DIR, "MC_EnterpriseConf", cfg, os.path.join(c.work, "tlce%d" % i), workers=w, timeout=2400)
                  for i, (cfg, w, _) in enumerate(ecjobs)]
        ecpipes = [ex.submit(ec_pipeline, c, exe, cfg, maxlen, tag) for cfg, maxlen, tag in ecgens]
        results = [f.result() for f in futs]
        for (cfg, w, what), res in zip(jobs, results):
            c.require_ok(res, what)
        gen = results[2]
        run_admission(c, quick, gen, exe.result())
        ecres = [f.result() for f in ecfuts]
        ecpiperes = [f.result() for f in ecpipes]
    try:
        os.remove(exe.result())         # binaries are never kept across runs
    except OSError:
        pass
    c.require_ok(ecres[0], ecjobs[0][2])
    c.add_tlc(ecres[1], ecjobs[1][2])
    if ecres[1].violation != "Total":
        raise vlib.Infra("self-test of the EnterpriseConf model failed: expected Total violated without the separator check, got %s\n%s"
                         % (ecres[1].violation, ecres[1].out[-2000:]))
    c.extra["entconf"] = {}
    for (cfg, maxlen, tag), (g, gorun, stats, inp) in zip(ecgens, ecpiperes):
        c.require_ok(g, "EnterpriseConf transition enumeration (histories <= %d)" % maxlen)
        rc, output, outpath = gorun
        r = c.absorb_go(outpath, output)
        if rc != 0 and not r.get("violations"):
            raise vlib.Infra("EnterpriseConf harness failed:\n" + output[-3000:])
        ex2 = r.get("extra") or {}
        agree = ex2.get("spec_vs_code") or {}
        if agree.get("outcome/agree", 0) + agree.get("outcome/differ", 0) == 0 or agree.get("store/agree", 0) + agree.get("store/differ", 0) == 0:
            raise vlib.Infra("EnterpriseConf harness (%s): nothing was compared: %s" % (tag, agree))
        stats.update(spec_vs_code=agree, drift=ex2.get("drift"), outcomes=ex2.get("outcomes"), offmodel_states=ex2.get("offmodel_states"))
        c.extra["entconf"][tag] = stats


def run_admission(c, quick, gen, exe):
    cases, probes, worlds = parse_cases(gen.out)
    if len(cases) < 5000 or not probes or not worlds:
        raise vlib.Infra("case enumeration incomplete: %d cases, probes=%s worlds=%s" % (len(cases), bool(probes), bool(worlds)))
    uniq = {}
    for x in cases:            # a shape may belong to two families
        uniq[json.dumps(x, sort_keys=True)] = x
    cases = [uniq[k] for k in sorted(uniq)]
    worlds = sorted(worlds, key=lambda w: w["name"])
    probes = sorted(probes, key=lambda x: json.dumps(x, sort_keys=True))
    for p in probes:
        p.update(w="", s="", pd=[])
    inp = {"worlds": worlds, "cases": cases, "probes": probes, "variants": 1 if quick else 2, "fuzz": 3000 if quick else 40000}
    inpath = os.path.join(c.work, "admission_in.json")
    json.dump(inp, open(inpath, "w"))
    outpath = os.path.join(c.work, "admission_out.json")
    rc, output = run_harness(c, exe, "^TestVerifAdmission$", {"VERIF_IN": inpath, "VERIF_OUT": outpath, "VERIF_SEED": c.seed, "VERIF_TIER": c.tier}, "adm")
    r = c.absorb_go(outpath, output)
    if rc != 0 and not r.get("violations"):
        raise vlib.Infra("harness failed:\n" + output[-3000:])
    ex = r.get("extra") or {}
    c.exhaustive = True
    c.extra["exhaustive_note"] = ("exhaustive over the abstract grammar of Admission.tla (%d cases on %d worlds, argument lists <= %d where the calls live); "
                                  "inside every class the bytes are sampled (%d seeded concretisations per case); the byte-level mutation "
                                  "driver is sampled" % (len(cases), len(worlds), 2 if quick else 3, inp["variants"]))
    c.extra["outcomes"] = ex.get("outcomes")
    c.extra["spec_vs_code"] = ex.get("spec_vs_code")
    c.extra["drift"] = ex.get("drift")
    c.extra["slowest_layer_call"] = ex.get("slowest_layer_call")
    agree = ex.get("spec_vs_code") or {}
    for layer in ("types", "pool", "exec"):
        a, d = agree.get(layer + "/agree", 0), agree.get(layer + "/differ", 0)
        if a + d == 0:
            raise vlib.Infra("layer %s was never reached" % layer)
