"""C14 — admission totality: untrusted transactions never crash a node.
spec/admission/Admission.tla; binding: every (world, sender, shape) TLC enumerates is concretised and sent through
mempool.verifyTx -> mempool.validateTx -> chain.executeTx of the real code under recover() (harness/mempool)."""
import json, os
import vlib

LEVEL = "model_checking"
MANIFEST = dict(
    category=LEVEL, design_ref="DESIGN.md §5 C14, §6-b",
    text="Admission.tla models the three layers an untrusted transaction passes (types.Validate + signature, the pool's validateTx with the "
         "system/name/enterprise validators, block execution) as actions over an abstract shape grammar (envelope field classes x JSON call "
         "name x argument-class lists x sender/chain context); every layer has the outcomes accept/reject (ok/err/skip for execution) and no panic "
         "outcome.  TLC checks the design exhaustively (Total, AdmittedExecutes, LayersInOrder, termination) and enumerates every shape; the harness "
         "turns each shape into several seeded concrete transactions, delivers them through a protobuf round trip to the real MemPool.verifyTx, "
         "MemPool.validateTx and, for everything the real pool admits, chain.NewTxExecutor/executeTx on a real BlockState in producer and validator "
         "mode, all under recover(); after a successfully executed transaction the block is committed, the node's state readers are run and a probe "
         "transaction per governance call is sent through all layers again.  A panic is a violation; which rejection is returned is not compared.",
    note="states of the sender classes are built by the real executor; contract VM replaced by the overlay stub (governance does not use it); "
         "fee delegation answered by a stand-in for the chain service actor over the VM stub; byte-level coverage is sampled per class",
    technique="TLA+/TLC exhaustive enumeration of an abstract input grammar with per-layer outcome model; concretisation of every enumerated "
              "case into the real entry points under recover(); two-transaction sequences (executed transaction, then probes) on the committed state")
SPEC_DIR = os.path.join(vlib.SPEC, "admission")

FIELDS = ["w", "s", "ty", "rc", "ac", "am", "pr", "gl", "no", "ci", "hs", "sg", "pk", "op", "ar"]


def tla_line(line, tag):
    """'"CS|<<\\"a\\", <<\\"b\\">>>>"' -> ["a", ["b"]] (tuples of strings only: parsed by json)."""
    body = line[len(tag) + 1:-1].replace('\\"', '"').replace("\\\\", "\\")
    return body


def parse_cases(out):
    cases, probes, worlds = [], None, None
    for line in out.splitlines():
        if line.startswith('"CS|'):
            v = json.loads(tla_line(line, "CS|").replace("<<", "[").replace(">>", "]"))
            c = dict(zip(FIELDS, v[:15]))
            c["pd"] = v[15:18]
            cases.append(c)
        elif line.startswith('"PB|') and probes is None:
            probes = vlib.parse_value(tla_line(line, "PB|"))
        elif line.startswith('"WD|') and worlds is None:
            worlds = vlib.parse_value(tla_line(line, "WD|"))
    return cases, probes, worlds


def run(c):
    quick = c.tier == "quick"
    c.rule = ("one case = one (world, sender class, transaction shape) enumerated by TLC from Admission.tla, in its seeded concretisations (1 quick, 2 thorough), sent "
              "through verifyTx, validateTx and (if really admitted) executeTx in both execution modes; plus, after every successfully executed "
              "case, the state readers and the probe transactions of the same contract on the committed state (next block and a day later); plus seeded byte-level mutations of "
              "governance payloads; distinct = distinct (world, sender, shape)")
    c.assumptions = ["in-memory key-value store (aergo-lib memorydb) stands for the disk store",
                     "pure-Go stub for the contract VM (overlay); governance transactions do not reach it",
                     "the pool asks a stand-in chain service (same code as chain.ChainWorker, VM stub) whether a contract pays the fee",
                     "every class of the abstract grammar is sampled by a few seeded concrete values (DESIGN §7)",
                     "TLC 1.8.0"]
    # 1. design-level checks and 2. enumeration of the cases with the specification's outcome per layer (independent TLC runs)
    from concurrent.futures import ThreadPoolExecutor
    jobs = [("MC_Admission.cfg" if quick else "MC_Admission_big.cfg", None,
             "Admission design: every shape gets an outcome at every layer it reaches; admitted => executed; layers in order; no deadlock"),
            ("MC_Admission_seq.cfg", 4, "Admission design, two-transaction behaviours (every executed transaction followed by every probe, now or a day later)"),
            ("Gen_Admission.cfg" if quick else "Gen_Admission_big.cfg", 1, "Admission case enumeration")]
    with ThreadPoolExecutor(3) as ex:
        futs = [ex.submit(vlib.tlc, SPEC_DIR, "MC_Admission", cfg, os.path.join(c.work, "tlc%d" % i), workers=w, timeout=2400)
                for i, (cfg, w, _) in enumerate(jobs)]
        results = [f.result() for f in futs]
    for (cfg, w, what), res in zip(jobs, results):
        c.require_ok(res, what)
    gen = results[2]
    cases, probes, worlds = parse_cases(gen.out)
    if len(cases) < 5000 or not probes or not worlds:
        raise vlib.Infra("case enumeration incomplete: %d cases, probes=%s worlds=%s" % (len(cases), bool(probes), bool(worlds)))
    uniq = {}
    for x in cases:            # a shape may belong to two families
        uniq[json.dumps(x, sort_keys=True)] = x
    cases = [uniq[k] for k in sorted(uniq)]
    worlds = sorted(worlds, key=lambda w: w["name"])
    probes = sorted(probes, key=lambda x: json.dumps(x, sort_keys=True))
    for p in probes:
        p.update(w="", s="", pd=[])
    inp = {"worlds": worlds, "cases": cases, "probes": probes, "variants": 1 if quick else 2, "fuzz": 3000 if quick else 40000}
    inpath = os.path.join(c.work, "admission_in.json")
    json.dump(inp, open(inpath, "w"))
    outpath = os.path.join(c.work, "admission_out.json")
    rc, output = vlib.go_test("./mempool/", "^TestVerifAdmission$", env={"VERIF_IN": inpath, "VERIF_OUT": outpath,
                              "VERIF_SEED": c.seed, "VERIF_TIER": c.tier}, timeout=3000)
    r = c.absorb_go(outpath, output)
    if rc != 0 and not r.get("violations"):
        raise vlib.Infra("harness failed:\n" + output[-3000:])
    ex = r.get("extra") or {}
    c.exhaustive = True
    c.extra["exhaustive_note"] = ("exhaustive over the abstract grammar of Admission.tla (%d cases on %d worlds, argument lists <= %d where the calls live); "
                                  "inside every class the bytes are sampled (%d seeded concretisations per case); the byte-level mutation "
                                  "driver is sampled" % (len(cases), len(worlds), 2 if quick else 3, inp["variants"]))
    c.extra["outcomes"] = ex.get("outcomes")
    c.extra["spec_vs_code"] = ex.get("spec_vs_code")
    c.extra["drift"] = ex.get("drift")
    c.extra["slowest_layer_call"] = ex.get("slowest_layer_call")
    agree = ex.get("spec_vs_code") or {}
    for layer in ("types", "pool", "exec"):
        a, d = agree.get(layer + "/agree", 0), agree.get(layer + "/differ", 0)
        if a + d == 0:
            raise vlib.Infra("layer %s was never reached" % layer)
