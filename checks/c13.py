"""C13 — transaction pool: per-account nonce order, no stale or duplicate entries, exact totals, also under concurrency.
spec/mempool/Mempool.tla; binding: every transition of the sequential TLC graphs replayed on the real MemPool (two back ends),
concurrent executions validated by TLC against MempoolTrace.tla (harness/mempool)."""
import json, os, random, re, threading, time
import vlib

LEVEL = "model_checking"
MANIFEST = dict(
    category=LEVEL, design_ref="DESIGN.md §5 C13",
    text="Mempool.tla models the pool at the grain of its critical sections (split put: cache lookup / validation / locked insert; "
         "block arrival and eviction with their trailing lock-free-visible cache deletions; removeTx; getUnconfirmed) and is model-checked "
         "for 2 accounts and 2 submitting threads (ReadyIsGapFree, NoDupNonce, NoDupHash, CountersExact, NoStaleAfterBlock, scan/outcome action properties); "
         "every transition of the complete sequential graphs (1 account x nonces 1..4, 2 accounts x nonces 1..2, two variants per nonce, two balances) "
         "is replayed on the real MemPool from a path-built source state, on the package's mock-state configuration and on a pool reading a real "
         "ChainStateDB through real block notifications (full and dirty-account scans), comparing lists, ready prefixes, base states, cache, counters and "
         "everything get/exist/Size/getUnconfirmed/listHash report; the producer's fetch with a body-size budget is a step of the model (two size classes, "
         "four budgets, the set of possible answers over the map order): at every state of the graphs get(budget) is called on real transactions "
         "of both sizes and must offer per account a gap-free run state+1, state+2, .. with nothing after a transaction that did not fit, and be one "
         "of the model's answers; deterministic concurrency: lock-gated pair schedules derived from the same TLC "
         "graphs — for ordered pairs of calls at a source state (put x block arrival in both orders with and without an existing list, put x put, "
         "put x get, block x get, eviction x put/get/block, put x removeTx/getUnconfirmed) the in-package harness holds the pool's own lock until both "
         "goroutines are queued at it (read from the lock's waiter counts, not from timing), releases it, and compares the pool and both return values "
         "with the two sequential outcomes of the graph (second step of a put = the model's PutLocked in that state), predicates at the quiescent point; "
         "randomized concurrent runs (submitters, actor, evictor, readers) are logged with a global "
         "sequence and validated by TLC against MempoolTrace.tla (linearizability search), predicates evaluated at every quiescent point; "
         "thorough tier under the race detector; the block notification is modelled as repaired by f307abce (child of the pool's best block: "
         "dirty-account scan, any other block: every list; BaseNonceSynced); the pool composed with the chain service and local production "
         "(NodePool.tla: reorganisations returning transactions, failing roll-forwards, production after a branch switch) is model-checked and its "
         "behaviours are replayed on a node with the real pool, the pool-side oracles evaluated after every step.",
    note="in-memory state db; zero fee; accounts/amounts abstracted to 2 balances x 2 amounts; the concurrent thread structure follows the node "
         "(getUnconfirmed only from the actor goroutine, block notifications from one goroutine)",
    technique="TLA+/TLC exhaustive model; replay of every TLC transition into the real pool; model-derived lock-gated pair schedules (deterministic "
              "two-call interleavings checked against both sequential outcomes of the TLC graph); TLC trace validation (linearizability) of "
              "randomized concurrent runs; go -race; NodePool.tla (chain + pool + production) behaviours replayed on a real node with the real pool")
SPEC_DIR = os.path.join(vlib.SPEC, "mempool")
SEP = " ## "


# --------------------------------------------------------------------------- TLC output -> JSON for the harness

def conv_state(v):
    chain, pool, cache, length, orphan, notified = v
    if pool == []:
        pool = {}
    return {"chain": chain, "pool": pool, "cache": cache, "length": length, "orphan": orphan, "notified": notified}


def conv_act(a):
    a = dict(a)
    a.pop("why", None)
    if a["name"] == "Get":
        # alts: the set of possible answers (one per map order), each a function account -> offered run (<<>> = [] = nothing)
        a["alts"] = [{acc: run for acc, run in (alt.items() if isinstance(alt, dict) else []) if run} for alt in a["alts"]]
    if a["name"] == "Block":
        chg = a.pop("chg")
        if chg:
            a["chg_acc"], a["chg_st"] = chg[0], chg[1]
    return a


def parse_gen(out):
    """lines "TR|<src> ## <act> ## <dst>" -> (states, init_index, transitions); every distinct text parsed once"""
    cache, states, sidx, tidx, trans = {}, [], {}, {}, []

    def state_of(txt):
        i = tidx.get(txt)
        if i is None:
            st = conv_state(vlib.parse_value(txt))      # (TLC prints one set in several element orders: key by value)
            key = json.dumps(st, sort_keys=True)
            i = sidx.get(key)
            if i is None:
                i = sidx[key] = len(states)
                states.append(st)
            tidx[txt] = i
        return i

    forced = []     # "TF|" lines: PutForced steps (locked part of a put validated earlier), printed but not followed by TLC
    for line in out.splitlines():
        if not line.startswith(('"TR|', '"TF|')):
            continue
        body = line[4:-1].replace('\\"', '"').replace("\\\\", "\\")
        s, a, d = body.split(SEP)
        act = cache.get(a)
        if act is None:
            act = cache[a] = conv_act(vlib.parse_value(a))
        (trans if line[2] == "R" else forced).append({"s": state_of(s), "d": state_of(d), "a": act})
    return states, trans, forced


def replayable(backend, a):
    if a["name"] == "SetChain":
        return backend == "test"
    if a["name"] == "Block":
        return backend == "real" or a["full"]
    return True


def bfs_parents(nstates, trans, init, backend):
    out = {}
    for i, t in enumerate(trans):
        if replayable(backend, t["a"]):
            out.setdefault(t["s"], []).append(i)
    par = [-2] * nstates
    par[init] = -1
    q = [init]
    while q:
        nq = []
        for s in q:
            for i in out.get(s, []):
                d = trans[i]["d"]
                if par[d] == -2:
                    par[d] = i
                    nq.append(d)
        q = nq
    return par, out


def build_graph(name, gen, accounts, backends, rng, nwalks, wlen):
    states, trans, forced = parse_gen(gen.out)
    if not trans:
        raise vlib.Infra("no transitions generated for " + name)
    if len(trans) + len(forced) != gen.generated - 1:
        raise vlib.Infra("%s: %d + %d transition lines for %d generated states" % (name, len(trans), len(forced), gen.generated))
    inits = [i for i, s in enumerate(states) if not s["pool"] and not s["cache"] and s["notified"]
             and all(v == {"nonce": 0, "bal": 2} for v in s["chain"].values())]
    if len(inits) != 1:
        raise vlib.Infra("initial state not identified in " + name)
    init = inits[0]
    txs = sorted({json.dumps(t["a"]["tx"], sort_keys=True) for t in trans if t["a"].get("tx")})
    g = {"name": name, "accounts": accounts, "txs": [json.loads(x) for x in txs], "states": states, "init": init,
         "parent": {}, "walks": {}}
    for b in backends:
        par, out = bfs_parents(len(states), trans, init, b)
        g["parent"][b] = par
        adj = {s: [(i, trans[i]["d"]) for i in lst] for s, lst in out.items()}
        g["walks"][b] = vlib.random_walks(adj, init, nwalks, wlen, rng)
    g["trans"] = trans
    return g, len(trans), forced


# --------------------------------------------------------------------------- lock-gated pair schedules
#
# For an ordered pair (op1, op2) of calls enabled in a source state the harness holds the pool lock, starts op1, waits
# until its goroutine is queued at the lock (or has returned), starts op2 likewise, releases the lock.  Both calls have
# then done their lock-free parts in the source state (a put: cache lookup + validation, PutCache/PutValidate of the
# model) and their critical sections run one after the other, in one of the two orders.  The legal outcomes are read
# from the TLC graph: src --op1--> x1 --op2--> x12 and src --op2--> x2 --op1--> x21, where the second step of a put is
# the model's PutLocked in that state (the sequential Put transition where a put started there would reach the lock as
# well, the printed PutForced step otherwise) and a put that the model turns away before the lock in src changes nothing.
# Nothing of the model's effects is recomputed here: only which transition of the graph a call corresponds to in a
# given state (block: named accounts -> dirty set; eviction: which lists are old).

GET = -1     # get() is no action of Mempool.tla (it changes nothing); its legal results are the ready runs of a graph state
READERS = ("Get", "Unconfirmed")


def txkey(tx):
    return (tx["acc"], tx["nonce"], tx["amt"])


def akey(a):
    """identity of a call (the action without its result)"""
    tx, st = a.get("tx"), a.get("chg_st") or a.get("st")
    return (a["name"], txkey(tx) if tx else None, a.get("acc"), a.get("chg_acc"), (st["nonce"], st["bal"]) if st else None,
            a.get("full"), tuple(a.get("dirty") or ()), tuple(a.get("accs") or ()), a.get("budget"))


class PairGen:
    def __init__(self, g, forced):
        self.g, self.states, self.trans = g, g["states"], g["trans"]
        self.seq, self.forced = {}, {}
        for ti, t in enumerate(self.trans):
            self.seq.setdefault(t["s"], {})[akey(t["a"])] = ti
        for f in forced:
            self.forced.setdefault(f["s"], {})[txkey(f["a"]["tx"])] = (f["d"], f["a"]["res"])
        self.dropped = 0

    def act(self, op):
        return {"name": "Get"} if op == GET else self.trans[op]["a"]

    def step(self, x, a):
        ti = self.seq.get(x, {}).get(akey(a))
        return None if ti is None else self.trans[ti]

    def locked(self, src, a, x, touched):
        """the critical section of call a (started in src) taken in state x: (x', result class, state the report shows) or None"""
        n = a["name"]
        if n == "Get":
            return x, "", x
        if n == "Put":
            txk = txkey(a["tx"])
            if txk in self.forced.get(src, {}):          # turned away before the lock (in cache / validation), in src
                return x, "rej", -1
            f = self.forced.get(x, {}).get(txk)
            if f:
                return f[0], f[1], -1
            t = self.step(x, a)
            return None if t is None else (t["d"], t["a"]["res"], -1)
        if n == "Remove":
            t = self.step(x, a)
            return None if t is None else (t["d"], t["a"]["res"], -1)
        if n == "Unconfirmed":
            t = self.step(x, a)
            return None if t is None else (t["d"], "", t["d"])
        if n == "Block":
            b = a
            if not a["full"]:
                # the real block names: the model's dirty accounts + the account whose nonce it advances (an account
                # without a list is not in the model's dirty set, but the real block still names it)
                named = set(a["dirty"])
                if a.get("chg_acc") and a["chg_st"]["nonce"] > self.states[src]["chain"][a["chg_acc"]]["nonce"]:
                    named.add(a["chg_acc"])
                b = dict(a, dirty=sorted(named & set(self.states[x]["pool"])))
            t = self.step(x, b)
            return None if t is None else (t["d"], "", -1)
        if n == "Evict":
            # evictPeriod = 0 in the harness: every list is old unless the harness marked it young (those outside accs)
            # and nothing touched it since; lists created or modified by the other call are old again
            S, dom = set(a["accs"]), set(self.states[x]["pool"])
            sx = dom if S == set(self.states[src]["pool"]) else (S | touched) & dom
            if not sx:
                return x, "", -1
            t = self.step(x, {"name": "Evict", "accs": sorted(sx)})
            return None if t is None else (t["d"], "", -1)
        return None

    @staticmethod
    def touch(a, res):
        return {a["tx"]["acc"]} if a["name"] == "Put" and res == "ok" else set()

    def outcomes(self, src, op1, op2):
        a1, a2 = self.act(op1), self.act(op2)
        out = []
        for first in (1, 2):
            fa, sa = (a1, a2) if first == 1 else (a2, a1)
            r = self.locked(src, fa, src, set())
            if r is None:
                return None
            q = self.locked(src, sa, r[0], self.touch(fa, r[1]))
            if q is None:
                return None
            one, two = (r, q) if first == 1 else (q, r)
            out.append([q[0], one[1], one[2], two[1], two[2]])
        return out

    def pairs_at(self, src, backend, early=False):
        """the ordered pairs exercised in src: put x {block, put, get, evict, removeTx / getUnconfirmed of the same account}
        in both orders, block x get, evict x get, block x evict-everything in both orders.  early: also the pairs with a
        put that the cache lookup / validation turns away in src (it returns before the lock: nothing overlaps)"""
        ops = {}
        for ti in self.seq.get(src, {}).values():
            a = self.trans[ti]["a"]
            if a["name"] == "Block" and backend == "test" and (not a["full"] or a.get("chg_acc")):
                continue        # mock state: the state change is not part of the notification (SetChain is a path step)
            if a["name"] == "SetChain":
                continue
            ops.setdefault(a["name"], []).append(ti)
        for l in ops.values():
            l.sort()
        puts, blocks, evicts = ops.get("Put", []), ops.get("Block", []), ops.get("Evict", [])
        dom = sorted(self.states[src]["pool"])
        evall = [ti for ti in evicts if self.trans[ti]["a"]["accs"] == dom]
        cand = []
        if not early:
            puts = [p for p in puts if txkey(self.trans[p]["a"]["tx"]) not in self.forced.get(src, {})]
        for p in puts:
            acc = self.trans[p]["a"]["tx"]["acc"]
            same = [ti for ti in ops.get("Remove", []) if self.trans[ti]["a"]["tx"]["acc"] == acc] + \
                   [ti for ti in ops.get("Unconfirmed", []) if self.trans[ti]["a"]["acc"] == acc]
            for x in blocks + evicts + same + [GET]:
                cand += [(p, x), (x, p)]
            cand += [(p, q) for q in puts]
        for b in blocks:
            cand += [(b, GET), (GET, b)] + [(b, e) for e in evall] + [(e, b) for e in evall]
        for e in evicts:
            cand += [(e, GET), (GET, e)]
        res = []
        for o1, o2 in cand:
            out = self.outcomes(src, o1, o2)
            if out is None:
                self.dropped += 1
                continue
            r1, r2 = self.act(o1)["name"] in READERS, self.act(o2)["name"] in READERS
            # the gate: the write lock (two writers queue in order, a reader passes a queued writer), or the read lock
            # when the writer is to go first (it announces itself, the reader queues behind it)
            gate = "R" if (r2 and not r1) else "W"
            res.append({"b": backend, "s": src, "o1": o1, "o2": o2, "gate": gate, "out": out})
        return res


def bfs_order(g, backend):
    """states reachable on this back end, nearest first"""
    par = g["parent"][backend]
    depth = {g["init"]: 0}

    def d(s):
        chain = []
        while s not in depth:
            chain.append(s)
            s = g["trans"][par[s]]["s"]
        base = depth[s]
        for k, x in enumerate(reversed(chain)):
            depth[x] = base + k + 1
        return depth[chain[0]] if chain else base
    reach = [s for s in range(len(par)) if par[s] != -2]
    return sorted(reach, key=lambda s: (d(s), s))


def select_pairs(gi, g, forced, backends, rng, nfirst, nrand, cap, early):
    """all pairs at the nfirst nearest source states + nrand seeded random ones, per back end (cap: bound per back end);
    early: at the nearest states also the pairs in which a put returns before the lock"""
    pg = PairGen(g, forced)
    out, nsrc = [], 0
    for b in backends:
        order = bfs_order(g, b)
        rest = order[nfirst:]
        rng.shuffle(rest)
        n0 = len(out)
        for k, s in enumerate(order[:nfirst] + rest[:nrand]):
            if len(out) - n0 >= cap:
                break
            ps = pg.pairs_at(s, b, early and k < nfirst)
            for p in ps:
                p["g"] = gi
            out += ps
            nsrc += 1
    return out, nsrc, pg.dropped


# --------------------------------------------------------------------------- concurrent traces

def merge_trace(raw_path, out_path):
    """the harness logs call and ret separately (that is what it can observe); for the TLC search the result of a
    call is copied into its call event (pure pruning: the internal step must produce exactly this result)."""
    evs = [json.loads(l) for l in open(raw_path) if l.strip()]
    open_call = {}
    for e in evs:
        if e["ev"] == "call":
            open_call[e["t"]] = e
        elif e["ev"] == "ret":
            c = open_call.pop(e["t"])
            for k, v in e.items():
                if k not in ("ev", "t", "why"):
                    c[k] = v
            for k in [k for k in e if k not in ("ev", "t")]:
                del e[k]
        elif e["ev"] == "reset":
            open_call = {}
    with open(out_path, "w") as f:
        for e in evs:
            f.write(json.dumps(e) + "\n")
    return evs


CHUNK = 6000     # events per TLC run: TLC cannot handle behaviours longer than 65535 states (about 4 states per event)


def split_chunks(evs):
    """[(index of first event, events)]: whole runs (each starts with its reset event), at most CHUNK events"""
    starts = [i for i, e in enumerate(evs) if e["ev"] == "reset"] + [len(evs)]
    chunks, cur = [], starts[0]
    for k in range(1, len(starts)):
        if starts[k] - cur > CHUNK and starts[k - 1] > cur:
            chunks.append((cur, evs[cur:starts[k - 1]]))
            cur = starts[k - 1]
    chunks.append((cur, evs[cur:]))
    return chunks


def validate_chunk(c, k, evs, what, timeout):
    """own variant of vlib.validate_trace: the trace spec has internal steps, so progress is reported by the spec
    itself (TRACE-PROGRESS line) and acceptance by the POSTCONDITION.  Returns (accepted, events consumed, TlcResult)."""
    wd = os.path.join(c.work, "trace%d" % k)
    os.makedirs(wd, exist_ok=True)
    path = os.path.join(wd, "chunk.ndjson")
    with open(path, "w") as f:
        for e in evs:
            f.write(json.dumps(e) + "\n")
    res = vlib.tlc(SPEC_DIR, "MempoolTrace", "MempoolTrace.cfg", wd, workers=1, timeout=timeout, heap="3g",
                   java_opts=["-Dtlc2.tool.queue.IStateQueue=StateDeque"],      # depth-first: one witness is enough
                   files={"trace.ndjson": path})
    m = None
    for m in re.finditer(r'"TRACE-PROGRESS", (\d+), (\d+)', res.out):
        pass
    if res.violation == "timeout" or (not res.ok and "ostcondition" not in res.out) or m is None:
        raise vlib.Infra("trace validation (%s, chunk %d) produced no verdict (%s):\n%s" % (what, k, res.violation, res.out[-3000:]))
    reached = int(m.group(1))
    return res.ok and reached == len(evs), reached, res


def validate(c, evs, what, timeout):
    """validate all chunks (4 TLC runs at a time); (accepted, index of the first event that could not be consumed, [TlcResult])"""
    chunks = split_chunks(evs)
    out = [None] * len(chunks)
    sem = threading.Semaphore(4)

    def job(k):
        with sem:
            try:
                out[k] = validate_chunk(c, k, chunks[k][1], what, timeout)
            except Exception as e:
                out[k] = e
    ths = [threading.Thread(target=job, args=(k,)) for k in range(len(chunks))]
    for t in ths:
        t.start()
    for t in ths:
        t.join()
    for o in out:
        if isinstance(o, Exception):
            raise o if isinstance(o, vlib.Infra) else vlib.Infra("trace validation failed: %r" % (o,))
    bad = None
    for k, (ok, reached, res) in enumerate(out):
        if not ok and bad is None:
            bad = chunks[k][0] + reached
    return bad is None, bad, [o[2] for o in out]


def run(c):
    rng = random.Random(c.seed)
    quick = c.tier == "quick"
    c.rule = ("sequential: every transition (state, call, state') of the complete TLC graphs of Mempool.tla/SeqSpec is replayed on the real pool "
              "from a source state built by real calls along a shortest path, per back end (mock state / real state db); a case is one "
              "(graph, back end, transition) or one step of a seeded walk; pair schedules: a case is one ordered pair of calls at one source state of a "
              "graph on one back end, both goroutines queued at the pool lock before it is released, outcome = one of the two sequential outcomes of the "
              "graph; concurrent: a case is one round (3-6 goroutines) ending in a quiescent point")
    c.assumptions = ["in-memory state db (aergo-lib memorydb); zero fee as in the package's own tests",
                     "balances/amounts abstracted to {1,2}; one transaction type (plain transfer)",
                     "concurrent runs follow the node's thread structure: block notifications from one goroutine, getUnconfirmed only from it",
                     "pair schedules: 'queued at the pool lock' is read from sync.RWMutex's own waiter counts (field layout found by reflection, "
                     "semantics confirmed by a self-test at the start of every run; evictPeriod = 0 as in the default configuration)",
                     "TLC 1.8.0"]
    backends = ["test", "real"]

    # 1. design check + the two generation runs, in parallel
    jobs = {
        "mc": ("MC_Mempool", "MC_Mempool.cfg" if quick else "MC_Mempool_big.cfg", None),
        "g1": ("MC_Mempool", "Gen_Mempool_1.cfg", 4),     # (whole lines are printed atomically; the line count is checked below)
        "g2": ("MC_Mempool", "Gen_Mempool_q.cfg" if quick else "Gen_Mempool.cfg", 4),
    }
    results = {}

    def tlc_job(k):
        mod, cfg, workers = jobs[k]
        try:
            results[k] = vlib.tlc(SPEC_DIR, mod, cfg, os.path.join(c.work, k), workers=workers or 8,
                                  timeout=900 if quick else 3000, heap="4g" if workers else None)
        except Exception as e:  # reported below
            results[k] = e
    ths = [threading.Thread(target=tlc_job, args=(k,)) for k in jobs]
    for t in ths:
        t.start()
    # 0. the pool composed with the chain service and local production (spec/node/NodePool.tla): behaviours with
    #    reorganisations, failing roll-forwards and production replayed on a node with the REAL pool; the pool-side oracles
    #    (nothing stale, nothing of the main chain pooled, offered runs gap-free from state+1, returned transactions pooled,
    #    counters) belong to C13.  Quick tier: fewer behaviours than C04 replays, and the whole part runs BESIDE the TLC jobs
    #    above (they leave most cores idle for 1-2 minutes) - this thread is the only one that touches `c` until it is joined,
    #    and it is joined before this check builds its own harness (no two Go builds at a time).  Thorough tier: at the end
    #    of run() (memory: the big NodePool configurations next to MC_Mempool_big).
    np_err = []

    def nodepool_job():
        try:
            from checks import nodepool_common
            nodepool_common.run_nodepool(c, "C13", quick_cover=140, quick_sim=50)
        except BaseException as e:      # re-raised in the main thread
            np_err.append(e)
    np_thread = threading.Thread(target=nodepool_job) if quick else None
    if np_thread:
        np_thread.start()
    for t in ths:
        t.join()
    if np_thread:
        np_thread.join()
        if np_err:
            raise np_err[0]
    for k in jobs:
        if isinstance(results[k], Exception):
            raise vlib.Infra("TLC job %s failed: %s" % (k, results[k]))
    c.require_ok(results["mc"], "Mempool design: split put x block arrival x eviction x removeTx, 2 submitting threads")
    c.require_ok(results["g1"], "sequential graph G1 (1 account, nonces 1..4): invariants + transition enumeration")
    c.require_ok(results["g2"], "sequential graph G2 (2 accounts): invariants + transition enumeration")

    # 2. graphs for the harness
    nwalks, wlen = (30, 40) if quick else (300, 80)
    g1, n1, f1 = build_graph("G1", results["g1"], ["a1"], backends, rng, nwalks, wlen)
    g2, n2, f2 = build_graph("G2q" if quick else "G2", results["g2"], ["a1", "a2"], backends, rng, nwalks, wlen)
    if n1 < 10000 or n2 < 10000:
        raise vlib.Infra("too few transitions generated: %d / %d" % (n1, n2))
    if not f1 or not f2:
        raise vlib.Infra("no forced put steps (TF lines) generated: %d / %d" % (len(f1), len(f2)))
    # 2b. lock-gated pair schedules: ordered pairs of calls at source states of the graphs, legal outcomes from the graphs
    #     quick: the 60 nearest + 140 seeded random source states per graph and back end (all pairs there); thorough: G1 every state,
    #     G2 the 150 nearest + 1850 random states per back end (= every state the real back end reaches), at most 250000 pairs per back end
    prng = random.Random(c.seed * 7919 + 13)
    pairs, pnotes = [], []
    for gi, (g, f, sel) in enumerate([(g1, f1, (60, 140, 40000, False) if quick else (100, 10 ** 6, 250000, True)),
                                      (g2, f2, (60, 140, 40000, False) if quick else (150, 1850, 250000, True))]):
        ps, nsrc, dropped = select_pairs(gi, g, f, backends, prng, *sel)
        pairs += ps
        pnotes.append("%s: %d pairs at %d (state, back end) sources" % (g["name"], len(ps), nsrc) + (", %d not expressible" % dropped if dropped else ""))
    if len(pairs) < 10000:
        raise vlib.Infra("too few pair schedules derived: %d" % len(pairs))
    kinds = {}
    for p in pairs:
        gg = (g1, g2)[p["g"]]
        k = "/".join("Get" if o == GET else gg["trans"][o]["a"]["name"] for o in (p["o1"], p["o2"]))
        kinds[k] = kinds.get(k, 0) + 1
    for need in ("Put/Block", "Block/Put", "Put/Put", "Put/Get", "Get/Put", "Block/Get", "Get/Block", "Put/Evict", "Evict/Put"):
        if not kinds.get(need):
            raise vlib.Infra("no pair schedule of kind %s derived" % need)
    c.notes.append("pair schedules derived: " + "; ".join(pnotes) + "; by kind: " + ", ".join("%s %d" % kv for kv in sorted(kinds.items())))
    conc = dict(runs=32 if quick else 120, rounds=6 if quick else 8, accounts=["a1", "a2", "a3"], max_nonce=4,
                putters=2, readers=1, ops_per=3, backends=backends)
    rawtrace = os.path.join(c.work, "mempool_trace_raw.ndjson")

    def harness(tag, graphs, conc_params, race, pair_cases=()):
        inpath = os.path.join(c.work, "mempool_in_%s.json" % tag)
        json.dump({"graphs": graphs, "backends": backends, "conc": conc_params, "pairs": list(pair_cases)}, open(inpath, "w"))
        outpath = os.path.join(c.work, "mempool_out_%s.json" % tag)
        env = {"VERIF_IN": inpath, "VERIF_OUT": outpath, "VERIF_TRACE": rawtrace, "VERIF_SEED": c.seed, "VERIF_TIER": c.tier,
               "ARGLIB_LEVEL": "panic"}
        rc, output = vlib.go_test("./mempool/", "^TestVerifMempool$", env=env, timeout=3000, race=race)
        if not os.path.exists(outpath) and report_fatal(c, output):
            return {"violations": [1]}
        r = c.absorb_go(outpath, output)
        raced = "WARNING: DATA RACE" in output
        if raced:
            report_races(c, output)
        if rc != 0 and not r.get("violations") and not raced:
            raise vlib.Infra("harness failed:\n" + output[-3000:])
        if pair_cases and not r.get("violations"):
            # a pair whose goroutines could not be confirmed queued at the pool lock is skipped by the harness, never judged;
            # more than a small fraction of them means the gate does not work here: no verdict
            ex = r.get("extra") or {}
            judged, skipped = int(ex.get("pairs_judged", 0)), int(ex.get("pairs_skipped", 0))
            if judged + skipped != len(pair_cases):
                raise vlib.Infra("pair schedules: %d given, %d judged + %d skipped" % (len(pair_cases), judged, skipped))
            if skipped > max(20, len(pair_cases) // 200):
                raise vlib.Infra("pair schedules: %d of %d pairs skipped (gate not confirmed): %s" % (
                    skipped, len(pair_cases), "; ".join(n for n in r.get("notes") or [] if n.startswith("pair"))[:1500]))
        return r

    if quick:
        r = harness("all", [g1, g2], conc, False, pairs)
    else:
        # the replay of the graphs and the pair schedules without, the randomized concurrent runs with the race detector
        r = harness("seq", [g1, g2], dict(conc, runs=0), False, pairs)
        if not r.get("violations"):
            r = harness("conc", [], conc, True)
    c.exhaustive = True
    c.extra["exhaustive_note"] = (
        "exhaustive over the abstract sequential models: G1 (1 account, nonces 1..4) %d transitions, %s %d transitions, all replayed on each back end "
        "that can express them (mock state: no dirty-account scans; real state db: no un-notified state change); the lock-gated pair schedules "
        "(%d ordered pairs, every pair of the listed kinds at the chosen source states) cover a seeded subset of the source states%s; walks and "
        "randomized concurrent schedules are sampled" % (n1, g2["name"], n2, len(pairs), "" if quick else " (G1: all of them)"))
    if r.get("violations"):
        return

    # 3. direction B: the concurrent executions, validated by TLC
    if not os.path.exists(rawtrace):
        raise vlib.Infra("harness wrote no trace")
    trace = os.path.join(c.work, "mempool_trace.ndjson")
    evs = merge_trace(rawtrace, trace)
    ok, bad, tress = validate(c, evs, "concurrent runs", 1500 if quick else 3000)
    for i, tres in enumerate(tress):
        c.add_tlc(tres, "trace validation of the concurrent runs (MempoolTrace), part %d of %d" % (i + 1, len(tress)))
    if not ok:
        start = max(i for i in range(bad + 1) if evs[i]["ev"] == "reset")
        head, e = evs[start], evs[bad]
        c.violation({"kind": "trace-rejected", "backend": head.get("backend"), "event": e.get("op", e["ev"])},
                    {"event_index": bad, "event": e, "run": evs[start:bad + 6]},
                    "no interleaving of the critical sections of Mempool.tla explains the recorded concurrent run %s (%s back end): "
                    "stuck at event %d of %d: %s" % (head.get("run"), head.get("backend"), bad, len(evs), json.dumps(e)[:400]))
        return
    c.traces_validated += conc["runs"]
    # binding self-test: a run in which one accepted put is reported as rejected must be refused
    idx = [i for i, e in enumerate(evs) if e["ev"] == "call" and e.get("op") == "put" and e.get("res") == "ok"]
    if not idx:
        raise vlib.Infra("no accepted put in the concurrent runs")
    i = idx[rng.randrange(len(idx))]
    first, chunk = [(f, ch) for f, ch in split_chunks(evs) if f <= i < f + len(ch)][0]
    badchunk = [dict(e, res="rej") if first + j == i else e for j, e in enumerate(chunk)]
    ok2, reached2, _ = validate_chunk(c, 99, badchunk, "self-test", 1500 if quick else 3000)
    if ok2:
        raise vlib.Infra("binding self-test failed: corrupted trace accepted")
    c.notes.append("self-test: trace with put result flipped at event %d rejected at event %d" % (i, first + reached2))

    # 4. thorough tier: the NodePool composition (see step 0; the quick tier has run it beside the TLC jobs)
    if not quick:
        from checks import nodepool_common
        nodepool_common.run_nodepool(c, "C13")


def _stacks(rep):
    """the two access stacks of one race report: [[(function, file:line), ...], ...] (innermost frame first)"""
    stacks = []
    for sec in re.split(r"\n\s*\n", rep):
        m = re.match(r"\s*(Read|Write|Previous read|Previous write) at ", sec)
        if not m:
            continue
        fr = re.findall(r"(?m)^\s+(\S+)\(\)\n\s+(\S+\.go:\d+)", sec)
        stacks.append([(f.replace("github.com/aergoio/aergo/v2/", ""), loc) for f, loc in fr])
    return stacks


def report_races(c, output):
    """a race detector report on memory reached through the pool's own functions is a violation of the
    'also hold concurrently' clause; sig = the accessing functions of the two stacks"""
    reports = output.split("WARNING: DATA RACE")[1:]
    seen = set()
    for rep in reports:
        rep = rep.split("==================")[0]
        stacks = _stacks(rep)
        if len(stacks) < 2:
            raise vlib.Infra("unparsable race report:\n" + rep[:3000])
        via, site = [], []
        for st in stacks[:2]:
            code = [f for f, loc in st if "verif_" not in loc]
            mp = [f for f in code if f.startswith("mempool.")]
            if mp:
                via.append(mp[0])
            if code:
                # the accessing function; a pool function when it is the accessor or its direct caller
                site.append(code[1] if len(code) > 1 and not code[0].startswith("mempool.") and code[1].startswith("mempool.") else code[0])
        if not via:
            raise vlib.Infra("data race without a frame of package mempool (harness problem?):\n" + rep[:3000])
        sig = {"kind": "data-race", "site": sorted(set(site))}
        key = json.dumps(sig, sort_keys=True)
        if key in seen:
            continue
        seen.add(key)
        c.violation(sig, {"report": rep[:8000], "via": sorted(set(via))},
                    "race detector: unsynchronised access in %s (reached through %s)\n%s" % (", ".join(sig["site"]), ", ".join(sorted(set(via))), rep[:1500]))


def report_fatal(c, output):
    """the Go runtime aborting the harness inside the pool (concurrent map access) is an observation on the real code"""
    m = re.search(r"fatal error: (concurrent map[^\n]*)", output)
    if not m:
        return False
    tail = output[m.start():m.start() + 6000]
    fr = [f for f in re.findall(r"github\.com/aergoio/aergo/v2/(mempool\.\(\*(?:MemPool|txList)\)\.\w+)", tail)]
    if not fr:
        raise vlib.Infra("runtime fatal error outside the pool:\n" + tail[:3000])
    c.violation({"kind": "concurrent-map-access", "functions": sorted(set(fr))[:3]}, {"output": tail},
                "Go runtime: %s in %s" % (m.group(1), ", ".join(sorted(set(fr))[:3])))
    return True
