"""C13 — transaction pool: per-account nonce order, no stale or duplicate entries, exact totals, also under concurrency.
spec/mempool/Mempool.tla; binding: every transition of the sequential TLC graphs replayed on the real MemPool (two back ends),
concurrent executions validated by TLC against MempoolTrace.tla (harness/mempool)."""
import json, os, random, re, threading, time
import vlib

LEVEL = "model_checking"
MANIFEST = dict(
    category=LEVEL, design_ref="DESIGN.md §5 C13",
    text="Mempool.tla models the pool at the grain of its critical sections (split put: cache lookup / validation / locked insert; "
         "block arrival and eviction with their trailing lock-free-visible cache deletions; removeTx; getUnconfirmed) and is model-checked "
         "for 2 accounts and 2 submitting threads (ReadyIsGapFree, NoDupNonce, NoDupHash, CountersExact, NoStaleAfterBlock, scan/outcome action properties); "
         "every transition of the complete sequential graphs (1 account x nonces 1..4, 2 accounts x nonces 1..2, two variants per nonce, two balances) "
         "is replayed on the real MemPool from a path-built source state, on the package's mock-state configuration and on a pool reading a real "
         "ChainStateDB through real block notifications (full and dirty-account scans), comparing lists, ready prefixes, base states, cache, counters and "
         "everything get/exist/Size/getUnconfirmed/listHash report; concurrent runs (submitters, actor, evictor, readers) are logged with a global "
         "sequence and validated by TLC against MempoolTrace.tla (linearizability search), predicates evaluated at every quiescent point; "
         "thorough tier under the race detector.",
    note="in-memory state db; zero fee; accounts/amounts abstracted to 2 balances x 2 amounts; the concurrent thread structure follows the node "
         "(getUnconfirmed only from the actor goroutine, block notifications from one goroutine)",
    technique="TLA+/TLC exhaustive model; replay of every TLC transition into the real pool; TLC trace validation (linearizability) of concurrent runs; go -race")
SPEC_DIR = os.path.join(vlib.SPEC, "mempool")
SEP = " ## "


# --------------------------------------------------------------------------- TLC output -> JSON for the harness

def conv_state(v):
    chain, pool, cache, length, orphan, notified = v
    if pool == []:
        pool = {}
    return {"chain": chain, "pool": pool, "cache": cache, "length": length, "orphan": orphan, "notified": notified}


def conv_act(a):
    a = dict(a)
    a.pop("why", None)
    if a["name"] == "Block":
        chg = a.pop("chg")
        if chg:
            a["chg_acc"], a["chg_st"] = chg[0], chg[1]
    return a


def parse_gen(out):
    """lines "TR|<src> ## <act> ## <dst>" -> (states, init_index, transitions); every distinct text parsed once"""
    cache, states, sidx, tidx, trans = {}, [], {}, {}, []

    def state_of(txt):
        i = tidx.get(txt)
        if i is None:
            st = conv_state(vlib.parse_value(txt))      # (TLC prints one set in several element orders: key by value)
            key = json.dumps(st, sort_keys=True)
            i = sidx.get(key)
            if i is None:
                i = sidx[key] = len(states)
                states.append(st)
            tidx[txt] = i
        return i

    for line in out.splitlines():
        if not line.startswith('"TR|'):
            continue
        body = line[4:-1].replace('\\"', '"').replace("\\\\", "\\")
        s, a, d = body.split(SEP)
        act = cache.get(a)
        if act is None:
            act = cache[a] = conv_act(vlib.parse_value(a))
        trans.append({"s": state_of(s), "d": state_of(d), "a": act})
    return states, trans


def replayable(backend, a):
    if a["name"] == "SetChain":
        return backend == "test"
    if a["name"] == "Block":
        return backend == "real" or a["full"]
    return True


def bfs_parents(nstates, trans, init, backend):
    out = {}
    for i, t in enumerate(trans):
        if replayable(backend, t["a"]):
            out.setdefault(t["s"], []).append(i)
    par = [-2] * nstates
    par[init] = -1
    q = [init]
    while q:
        nq = []
        for s in q:
            for i in out.get(s, []):
                d = trans[i]["d"]
                if par[d] == -2:
                    par[d] = i
                    nq.append(d)
        q = nq
    return par, out


def build_graph(name, gen, accounts, backends, rng, nwalks, wlen):
    states, trans = parse_gen(gen.out)
    if not trans:
        raise vlib.Infra("no transitions generated for " + name)
    if len(trans) != gen.generated - 1:
        raise vlib.Infra("%s: %d transition lines for %d generated states" % (name, len(trans), gen.generated))
    inits = [i for i, s in enumerate(states) if not s["pool"] and not s["cache"] and s["notified"]
             and all(v == {"nonce": 0, "bal": 2} for v in s["chain"].values())]
    if len(inits) != 1:
        raise vlib.Infra("initial state not identified in " + name)
    init = inits[0]
    txs = sorted({json.dumps(t["a"]["tx"], sort_keys=True) for t in trans if t["a"].get("tx")})
    g = {"name": name, "accounts": accounts, "txs": [json.loads(x) for x in txs], "states": states, "init": init,
         "parent": {}, "walks": {}}
    for b in backends:
        par, out = bfs_parents(len(states), trans, init, b)
        g["parent"][b] = par
        adj = {s: [(i, trans[i]["d"]) for i in lst] for s, lst in out.items()}
        g["walks"][b] = vlib.random_walks(adj, init, nwalks, wlen, rng)
    g["trans"] = trans
    return g, len(trans)


# --------------------------------------------------------------------------- concurrent traces

def merge_trace(raw_path, out_path):
    """the harness logs call and ret separately (that is what it can observe); for the TLC search the result of a
    call is copied into its call event (pure pruning: the internal step must produce exactly this result)."""
    evs = [json.loads(l) for l in open(raw_path) if l.strip()]
    open_call = {}
    for e in evs:
        if e["ev"] == "call":
            open_call[e["t"]] = e
        elif e["ev"] == "ret":
            c = open_call.pop(e["t"])
            for k, v in e.items():
                if k not in ("ev", "t", "why"):
                    c[k] = v
            for k in [k for k in e if k not in ("ev", "t")]:
                del e[k]
        elif e["ev"] == "reset":
            open_call = {}
    with open(out_path, "w") as f:
        for e in evs:
            f.write(json.dumps(e) + "\n")
    return evs


CHUNK = 6000     # events per TLC run: TLC cannot handle behaviours longer than 65535 states (about 4 states per event)


def split_chunks(evs):
    """[(index of first event, events)]: whole runs (each starts with its reset event), at most CHUNK events"""
    starts = [i for i, e in enumerate(evs) if e["ev"] == "reset"] + [len(evs)]
    chunks, cur = [], starts[0]
    for k in range(1, len(starts)):
        if starts[k] - cur > CHUNK and starts[k - 1] > cur:
            chunks.append((cur, evs[cur:starts[k - 1]]))
            cur = starts[k - 1]
    chunks.append((cur, evs[cur:]))
    return chunks


def validate_chunk(c, k, evs, what, timeout):
    """own variant of vlib.validate_trace: the trace spec has internal steps, so progress is reported by the spec
    itself (TRACE-PROGRESS line) and acceptance by the POSTCONDITION.  Returns (accepted, events consumed, TlcResult)."""
    wd = os.path.join(c.work, "trace%d" % k)
    os.makedirs(wd, exist_ok=True)
    path = os.path.join(wd, "chunk.ndjson")
    with open(path, "w") as f:
        for e in evs:
            f.write(json.dumps(e) + "\n")
    res = vlib.tlc(SPEC_DIR, "MempoolTrace", "MempoolTrace.cfg", wd, workers=1, timeout=timeout, heap="3g",
                   java_opts=["-Dtlc2.tool.queue.IStateQueue=StateDeque"],      # depth-first: one witness is enough
                   files={"trace.ndjson": path})
    m = None
    for m in re.finditer(r'"TRACE-PROGRESS", (\d+), (\d+)', res.out):
        pass
    if res.violation == "timeout" or (not res.ok and "ostcondition" not in res.out) or m is None:
        raise vlib.Infra("trace validation (%s, chunk %d) produced no verdict (%s):\n%s" % (what, k, res.violation, res.out[-3000:]))
    reached = int(m.group(1))
    return res.ok and reached == len(evs), reached, res


def validate(c, evs, what, timeout):
    """validate all chunks (4 TLC runs at a time); (accepted, index of the first event that could not be consumed, [TlcResult])"""
    chunks = split_chunks(evs)
    out = [None] * len(chunks)
    sem = threading.Semaphore(4)

    def job(k):
        with sem:
            try:
                out[k] = validate_chunk(c, k, chunks[k][1], what, timeout)
            except Exception as e:
                out[k] = e
    ths = [threading.Thread(target=job, args=(k,)) for k in range(len(chunks))]
    for t in ths:
        t.start()
    for t in ths:
        t.join()
    for o in out:
        if isinstance(o, Exception):
            raise o if isinstance(o, vlib.Infra) else vlib.Infra("trace validation failed: %r" % (o,))
    bad = None
    for k, (ok, reached, res) in enumerate(out):
        if not ok and bad is None:
            bad = chunks[k][0] + reached
    return bad is None, bad, [o[2] for o in out]


def run(c):
    rng = random.Random(c.seed)
    quick = c.tier == "quick"
    c.rule = ("sequential: every transition (state, call, state') of the complete TLC graphs of Mempool.tla/SeqSpec is replayed on the real pool "
              "from a source state built by real calls along a shortest path, per back end (mock state / real state db); a case is one "
              "(graph, back end, transition) or one step of a seeded walk; concurrent: a case is one round (3-6 goroutines) ending in a quiescent point")
    c.assumptions = ["in-memory state db (aergo-lib memorydb); zero fee as in the package's own tests",
                     "balances/amounts abstracted to {1,2}; one transaction type (plain transfer)",
                     "concurrent runs follow the node's thread structure: block notifications from one goroutine, getUnconfirmed only from it",
                     "TLC 1.8.0"]
    backends = ["test", "real"]

    # 1. design check + the two generation runs, in parallel
    jobs = {
        "mc": ("MC_Mempool", "MC_Mempool.cfg" if quick else "MC_Mempool_big.cfg", None),
        "g1": ("MC_Mempool", "Gen_Mempool_1.cfg", 4),     # (whole lines are printed atomically; the line count is checked below)
        "g2": ("MC_Mempool", "Gen_Mempool_q.cfg" if quick else "Gen_Mempool.cfg", 4),
    }
    results = {}

    def tlc_job(k):
        mod, cfg, workers = jobs[k]
        try:
            results[k] = vlib.tlc(SPEC_DIR, mod, cfg, os.path.join(c.work, k), workers=workers or 8,
                                  timeout=900 if quick else 3000, heap="4g" if workers else None)
        except Exception as e:  # reported below
            results[k] = e
    ths = [threading.Thread(target=tlc_job, args=(k,)) for k in jobs]
    for t in ths:
        t.start()
    for t in ths:
        t.join()
    for k in jobs:
        if isinstance(results[k], Exception):
            raise vlib.Infra("TLC job %s failed: %s" % (k, results[k]))
    c.require_ok(results["mc"], "Mempool design: split put x block arrival x eviction x removeTx, 2 submitting threads")
    c.require_ok(results["g1"], "sequential graph G1 (1 account, nonces 1..4): invariants + transition enumeration")
    c.require_ok(results["g2"], "sequential graph G2 (2 accounts): invariants + transition enumeration")

    # 2. graphs for the harness
    nwalks, wlen = (30, 40) if quick else (300, 80)
    g1, n1 = build_graph("G1", results["g1"], ["a1"], backends, rng, nwalks, wlen)
    g2, n2 = build_graph("G2q" if quick else "G2", results["g2"], ["a1", "a2"], backends, rng, nwalks, wlen)
    if n1 < 10000 or n2 < 10000:
        raise vlib.Infra("too few transitions generated: %d / %d" % (n1, n2))
    conc = dict(runs=32 if quick else 120, rounds=6 if quick else 8, accounts=["a1", "a2", "a3"], max_nonce=4,
                putters=2, readers=1, ops_per=3, backends=backends)
    rawtrace = os.path.join(c.work, "mempool_trace_raw.ndjson")

    def harness(tag, graphs, conc_params, race):
        inpath = os.path.join(c.work, "mempool_in_%s.json" % tag)
        json.dump({"graphs": graphs, "backends": backends, "conc": conc_params}, open(inpath, "w"))
        outpath = os.path.join(c.work, "mempool_out_%s.json" % tag)
        env = {"VERIF_IN": inpath, "VERIF_OUT": outpath, "VERIF_TRACE": rawtrace, "VERIF_SEED": c.seed, "VERIF_TIER": c.tier,
               "ARGLIB_LEVEL": "panic"}
        rc, output = vlib.go_test("./mempool/", "^TestVerifMempool$", env=env, timeout=3000, race=race)
        if not os.path.exists(outpath) and report_fatal(c, output):
            return {"violations": [1]}
        r = c.absorb_go(outpath, output)
        raced = "WARNING: DATA RACE" in output
        if raced:
            report_races(c, output)
        if rc != 0 and not r.get("violations") and not raced:
            raise vlib.Infra("harness failed:\n" + output[-3000:])
        return r

    if quick:
        r = harness("all", [g1, g2], conc, False)
    else:
        # the replay of the graphs without, the concurrent runs with the race detector
        r = harness("seq", [g1, g2], dict(conc, runs=0), False)
        if not r.get("violations"):
            r = harness("conc", [], conc, True)
    c.exhaustive = True
    c.extra["exhaustive_note"] = (
        "exhaustive over the abstract sequential models: G1 (1 account, nonces 1..4) %d transitions, %s %d transitions, all replayed on each back end "
        "that can express them (mock state: no dirty-account scans; real state db: no un-notified state change); walks and concurrent schedules "
        "are sampled" % (n1, g2["name"], n2))
    if r.get("violations"):
        return

    # 3. direction B: the concurrent executions, validated by TLC
    if not os.path.exists(rawtrace):
        raise vlib.Infra("harness wrote no trace")
    trace = os.path.join(c.work, "mempool_trace.ndjson")
    evs = merge_trace(rawtrace, trace)
    ok, bad, tress = validate(c, evs, "concurrent runs", 1500 if quick else 3000)
    for i, tres in enumerate(tress):
        c.add_tlc(tres, "trace validation of the concurrent runs (MempoolTrace), part %d of %d" % (i + 1, len(tress)))
    if not ok:
        start = max(i for i in range(bad + 1) if evs[i]["ev"] == "reset")
        head, e = evs[start], evs[bad]
        c.violation({"kind": "trace-rejected", "backend": head.get("backend"), "event": e.get("op", e["ev"])},
                    {"event_index": bad, "event": e, "run": evs[start:bad + 6]},
                    "no interleaving of the critical sections of Mempool.tla explains the recorded concurrent run %s (%s back end): "
                    "stuck at event %d of %d: %s" % (head.get("run"), head.get("backend"), bad, len(evs), json.dumps(e)[:400]))
        return
    c.traces_validated = conc["runs"]
    # binding self-test: a run in which one accepted put is reported as rejected must be refused
    idx = [i for i, e in enumerate(evs) if e["ev"] == "call" and e.get("op") == "put" and e.get("res") == "ok"]
    if not idx:
        raise vlib.Infra("no accepted put in the concurrent runs")
    i = idx[rng.randrange(len(idx))]
    first, chunk = [(f, ch) for f, ch in split_chunks(evs) if f <= i < f + len(ch)][0]
    badchunk = [dict(e, res="rej") if first + j == i else e for j, e in enumerate(chunk)]
    ok2, reached2, _ = validate_chunk(c, 99, badchunk, "self-test", 1500 if quick else 3000)
    if ok2:
        raise vlib.Infra("binding self-test failed: corrupted trace accepted")
    c.notes.append("self-test: trace with put result flipped at event %d rejected at event %d" % (i, first + reached2))


def _stacks(rep):
    """the two access stacks of one race report: [[(function, file:line), ...], ...] (innermost frame first)"""
    stacks = []
    for sec in re.split(r"\n\s*\n", rep):
        m = re.match(r"\s*(Read|Write|Previous read|Previous write) at ", sec)
        if not m:
            continue
        fr = re.findall(r"(?m)^\s+(\S+)\(\)\n\s+(\S+\.go:\d+)", sec)
        stacks.append([(f.replace("github.com/aergoio/aergo/v2/", ""), loc) for f, loc in fr])
    return stacks


def report_races(c, output):
    """a race detector report on memory reached through the pool's own functions is a violation of the
    'also hold concurrently' clause; sig = the accessing functions of the two stacks"""
    reports = output.split("WARNING: DATA RACE")[1:]
    seen = set()
    for rep in reports:
        rep = rep.split("==================")[0]
        stacks = _stacks(rep)
        if len(stacks) < 2:
            raise vlib.Infra("unparsable race report:\n" + rep[:3000])
        via, site = [], []
        for st in stacks[:2]:
            code = [f for f, loc in st if "verif_" not in loc]
            mp = [f for f in code if f.startswith("mempool.")]
            if mp:
                via.append(mp[0])
            if code:
                # the accessing function; a pool function when it is the accessor or its direct caller
                site.append(code[1] if len(code) > 1 and not code[0].startswith("mempool.") and code[1].startswith("mempool.") else code[0])
        if not via:
            raise vlib.Infra("data race without a frame of package mempool (harness problem?):\n" + rep[:3000])
        sig = {"kind": "data-race", "site": sorted(set(site))}
        key = json.dumps(sig, sort_keys=True)
        if key in seen:
            continue
        seen.add(key)
        c.violation(sig, {"report": rep[:8000], "via": sorted(set(via))},
                    "race detector: unsynchronised access in %s (reached through %s)\n%s" % (", ".join(sig["site"]), ", ".join(sorted(set(via))), rep[:1500]))


def report_fatal(c, output):
    """the Go runtime aborting the harness inside the pool (concurrent map access) is an observation on the real code"""
    m = re.search(r"fatal error: (concurrent map[^\n]*)", output)
    if not m:
        return False
    tail = output[m.start():m.start() + 6000]
    fr = [f for f in re.findall(r"github\.com/aergoio/aergo/v2/(mempool\.\(\*(?:MemPool|txList)\)\.\w+)", tail)]
    if not fr:
        raise vlib.Infra("runtime fatal error outside the pool:\n" + tail[:3000])
    c.violation({"kind": "concurrent-map-access", "functions": sorted(set(fr))[:3]}, {"output": tail},
                "Go runtime: %s in %s" % (m.group(1), ", ".join(sorted(set(fr))[:3])))
    return True
