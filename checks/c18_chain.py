"""C18(c), chain-service side: forged-before-genuine block deliveries (harness/internal/verifnode/verif_identity_test.go).
Called from checks/c18.py (run_chain_identity)."""
import json, os
import vlib
from checks import chaindb_common as cc


def run_chain_identity(c):
    orders = [["a1", "a2", "b1", "b2", "b3"], ["a1", "b1", "b2", "a2", "b3"], ["b2", "b1", "a1", "a2", "b3"]]
    if c.tier == "thorough":
        orders += [["b3", "b2", "b1", "a1", "a2"], ["a2", "a1", "b3", "b1", "b2"], ["b1", "b2", "b3", "a1", "a2"]]
    inp = dict(tree=cc.TREES["T0"], behaviours=[], public=False, coinbase=False, reference=False, orders=orders)
    inpath = os.path.join(c.work, "identity_in.json")
    json.dump(inp, open(inpath, "w"))
    nsh = 4
    outs = [os.path.join(c.work, "identity_out_%d.json" % i) for i in range(nsh)]
    rs = vlib.go_test_sharded("./internal/verifnode/", "^TestVerifBlockIdentity$", nsh,
                              lambda i: {"VERIF_IN": inpath, "VERIF_OUT": outs[i], "VERIF_SEED": c.seed, "VERIF_TIER": c.tier}, timeout=1200)
    for i, (rc, out) in enumerate(rs):
        r = c.absorb_go(outs[i], out)
        if rc != 0 and not r.get("violations"):
            raise vlib.Infra("identity harness shard %d failed:\n%s" % (i, "\n".join(l for l in out.splitlines() if not l.startswith('{"level'))[-3000:]))
