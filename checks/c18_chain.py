"""C18(c), chain-service side: forged-before-genuine block deliveries.
 - run_chain_identity(c): hand-written families (altered header field / emptied body on the blocks of tree T0 in several
   arrival orders), harness/internal/verifnode/verif_identity_test.go.  Called from checks/c18.py and checks/c09.py.
 - with bodies=...: additionally the model-derived sequences of the "cs" component of spec/p2p/BlockRecv.tla (genuine blocks
   of 1..12 transactions, every altered copy incl. every body with the genuine root by the merkle padding rule),
   harness/internal/verifnode/verif_identity_bodies_test.go.  Called from checks/c18.py only."""
import concurrent.futures, hashlib, json, os, shutil, subprocess
import vlib
from checks import chaindb_common as cc

PKG = "./internal/verifnode/"
HEADER_FIELDS = ["ChainID", "PrevBlockHash", "BlockNo", "Timestamp", "BlocksRootHash", "TxsRootHash", "ReceiptsRootHash", "Confirms",
                 "PubKey", "CoinbaseAccount", "Sign", "Consensus"]


# --------------------------------------------------------------------------- sequences of the chain-service component

def _skey(s):
    return (s["gn"], bool(s["conn"]["on"]), tuple(s["conn"]["body"]), bool(s["bad"]), s["narr"])


def _ikey(it):
    return (it["hdr"], tuple(it["body"]), it["kind"])


class CsGraph:
    """Transitions printed by Gen_BlockRecvCS.cfg: (state, item) -> (result, next state)."""

    def __init__(self, trs):
        self.out, self.items = {}, {}
        for (s, a, d) in trs:
            if a.get("name") != "Arrive":
                continue
            self.out[(_skey(s), _ikey(a["it"]))] = (a["res"], d)
            if s["narr"] == 0:
                self.items.setdefault(s["gn"], []).append(a["it"])
        for n in self.items:
            self.items[n].sort(key=lambda it: (it["kind"], it["hdr"], it["body"]))
        if len(self.items) < 12 or not all(any(it["kind"] == "padded" for it in self.items[n]) for n in (3, 5, 6, 7, 9, 10, 11, 12)):
            raise vlib.Infra("chain-service transitions incomplete: sizes %s" % sorted(self.items))

    def genuine(self, n):
        return [it for it in self.items[n] if it["kind"] == "genuine"][0]

    def seq(self, n, items, name=None):
        st = {"gn": n, "conn": {"on": False, "body": []}, "bad": [], "narr": 0}
        steps = []
        for it in items:
            k = (_skey(st), _ikey(it))
            if k not in self.out:
                raise vlib.Infra("no transition of BlockRecv.tla (cs) for %s from %s" % (it, st))
            res, st = self.out[k]
            steps.append({"it": {"hdr": it["hdr"], "body": list(it["body"]), "kind": it["kind"]}, "res": res,
                          "conn_on": bool(st["conn"]["on"]), "conn_body": list(st["conn"]["body"]), "bad": bool(st["bad"])})
        d = {"n": n, "steps": steps}
        if name:
            d["name"] = name
        return d


def chain_body_sequences(trs, tier, rng, counterexample=None):
    g = CsGraph(trs)
    seqs = []
    if counterexample:       # (n, items) of TLC's counterexample of the variant without the repeated-transaction guard
        n, items = counterexample
        seqs.append(g.seq(n, items, "noguard-counterexample"))
    for n in sorted(g.items):
        gen = g.genuine(n)
        forged = [it for it in g.items[n] if it["kind"] != "genuine"]
        for f in g.items[n]:                                  # the copy first, then the genuine block (genuine twice included)
            seqs.append(g.seq(n, [f, gen]))
        body_forged = [it for it in forged if it["hdr"] == "a"]
        if tier == "quick":
            seqs.append(g.seq(n, [gen, rng.choice(forged), gen]))
            seqs.append(g.seq(n, [rng.choice(body_forged), rng.choice(forged), gen]))
        else:
            for f in forged:                                  # the genuine block first: a later copy must not replace or unseat it
                seqs.append(g.seq(n, [gen, f, gen]))
            for _ in range(8):
                seqs.append(g.seq(n, [rng.choice(body_forged), rng.choice(forged), gen]))
    npad = sum(1 for n in g.items for it in g.items[n] if it["kind"] == "padded")
    return seqs, dict(items=sum(len(v) for v in g.items.values()), padded=npad, sizes=len(g.items))


def counterexample_items(res):
    """(n, [items]) of a TLC counterexample over the cs component."""
    items, n = [], None
    for (_a, st) in res.error_trace[1:]:
        la = st.get("lastAct")
        if not isinstance(la, dict) or la.get("name") != "Arrive":
            raise vlib.Infra("cannot read the counterexample of the chain-service component:\n%s" % res.out[-2000:])
        items.append(la["it"])
        n = st.get("gn")
    if not items or n is None:
        raise vlib.Infra("empty counterexample of the chain-service component")
    return n, items


# --------------------------------------------------------------------------- running

def _identity_input(c):
    orders = [["a1", "a2", "b1", "b2", "b3"], ["a1", "b1", "b2", "a2", "b3"], ["b2", "b1", "a1", "a2", "b3"]]
    if c.tier == "thorough":
        orders += [["b3", "b2", "b1", "a1", "a2"], ["a2", "a1", "b3", "b1", "b2"], ["b1", "b2", "b3", "a1", "a2"]]
    return dict(tree=cc.TREES["T0"], behaviours=[], public=False, coinbase=False, reference=False, orders=orders)


def _absorb(c, what, outs, rs):
    for i, (rc, out) in enumerate(rs):
        r = c.absorb_go(outs[i], out)
        if rc != 0 and not r.get("violations"):
            raise vlib.Infra("%s harness shard %d failed:\n%s" % (what, i, "\n".join(l for l in out.splitlines() if not l.startswith('{"level'))[-3000:]))


def run_chain_identity(c, exe=None, bodies=None, rng=None):
    inpath = os.path.join(c.work, "identity_in.json")
    json.dump(_identity_input(c), open(inpath, "w"))
    nsh = 4
    outs = [os.path.join(c.work, "identity_out_%d.json" % i) for i in range(nsh)]
    if exe is None and bodies is None:
        rs = vlib.go_test_sharded(PKG, "^TestVerifBlockIdentity$", nsh,
                                  lambda i: {"VERIF_IN": inpath, "VERIF_OUT": outs[i], "VERIF_SEED": c.seed, "VERIF_TIER": c.tier}, timeout=1200)
        _absorb(c, "identity", outs, rs)
        return
    # C18: one test binary (built by the caller next to the p2p harnesses, or here), both tests, all shards side by side
    own = exe is None
    if own:
        ov = vlib.gen_overlay()
        bindir = os.path.join(vlib.WORK, "gobin")
        os.makedirs(bindir, exist_ok=True)
        exe = os.path.join(bindir, "c18chain-%s-%d.test" % (hashlib.sha1(vlib.REPO.encode()).hexdigest()[:10], os.getpid()))
        r = subprocess.run(["go", "test", "-c", "-tags", "verif", "-overlay", ov, "-vet=off", "-o", exe, PKG], cwd=vlib.REPO, env=vlib.goenv(),
                           capture_output=True, text=True, timeout=2400)
        if r.returncode != 0 or not os.path.exists(exe):
            raise vlib.Infra("harness does not build (%s):\n%s" % (PKG, (r.stdout + r.stderr)[-4000:]))
    jobs = [("identity", "^TestVerifBlockIdentity$", i, inpath, outs[i]) for i in range(nsh)]
    bouts = []
    if bodies is not None:
        bpath = os.path.join(c.work, "identity_bodies_in.json")
        json.dump(bodies, open(bpath, "w"))
        bouts = [os.path.join(c.work, "identity_bodies_out_%d.json" % i) for i in range(nsh)]
        jobs += [("bodies", "^TestVerifBlockIdentityBodies$", i, bpath, bouts[i]) for i in range(nsh)]

    import time

    def one(j):
        what, run, i, ip, op = j
        t0 = time.time()
        cwd = os.path.join(c.work, "cwd-%s-%d" % (what, i))
        os.makedirs(cwd, exist_ok=True)
        e = {"VERIF_IN": ip, "VERIF_OUT": op, "VERIF_SEED": c.seed, "VERIF_TIER": c.tier, "VERIF_SHARD": "%d/%d" % (i, nsh), "TMPDIR": cwd}
        try:
            p = subprocess.run([exe, "-test.run", run, "-test.timeout", "1200s", "-test.count", "1"], cwd=cwd, env=vlib.goenv(e),
                               capture_output=True, text=True, timeout=1260)
            vlib.log("[c18-chain] %s shard %d: %.1fs" % (what, i, time.time() - t0))
            return p.returncode, p.stdout + p.stderr
        except subprocess.TimeoutExpired:
            return 124, "timeout"
        finally:
            shutil.rmtree(cwd, ignore_errors=True)
    try:
        with concurrent.futures.ThreadPoolExecutor(max_workers=len(jobs)) as ex:
            rs = list(ex.map(one, jobs))
    finally:
        if own:
            try:
                os.remove(exe)
            except OSError:
                pass
    _absorb(c, "identity", outs, rs[:nsh])
    if bouts:
        _absorb(c, "identity-bodies", bouts, rs[nsh:])
