import random
import vlib
from checks import ledger_common as lc

PID = "C04"
LEVEL = "model_checking"
RULE = 'a case is one offered transaction or one forged block; distinct = distinct (regime, template/nonce mode, class, kind)'
MANIFEST = dict(category=LEVEL, design_ref='DESIGN.md §5 C04',
    text="Ledger.tla's OnlyAuthorised / NonceSequential (a transaction takes effect only when signed by the sender's key, bound to this chain and carrying exactly nonce+1; no transaction twice) are checked exhaustively by TLC including replays. Really signed adversarial transactions (wrong key, altered signature, other chain id, gap/duplicate nonce, replay of an executed transaction) are offered to the real pool and to the real executor, and blocks carrying them are built by the production path itself and delivered to a fresh validator: none may be executed; executed nonces per account must be sequential within and across blocks; a transaction whose sender ACCOUNT is a name takes effect only when signed by the owner registered in the state the block starts from and is executed for the address the name stood for in that state (NameSenderNeedsOwnerKey; name handed over and used in one block, previous owner, new holder and strangers signing, nonces of either party; crafted blocks with these at the validator; a name-sender transaction admitted to the node's pool before a handover and delivered in a block after it); reorganisations that return transactions to the real pool, the same transaction on both branches and production from the pool after a branch switch are covered by NodePool.tla (chain + pool + local production composed), whose TLC behaviours are replayed on a node with the real pool: executed nonces stay sequential and no hash is executed twice along the main chain including locally produced blocks.",
    note="VM stub for contract execution; in-memory verifdb store; stub consensus; fees are read from receipts, never predicted",
    technique='TLA+/TLC authorisation model + really signed forgeries through pool, executor and validator; NodePool.tla behaviours replayed on a node with the real pool')


def run(c):
    rng = random.Random(c.seed)
    c.rule = RULE
    c.assumptions = ["VM stub interprets contract payloads (contract/contract.go Execute is the real code)", "in-memory store", "stub consensus", "TLC 1.8.0"]
    lc.design_checks(c)
    n, depth = (36, 18) if c.tier == "quick" else (400, 26)
    behs = lc.handmade() + lc.simulate(c, n, depth, c.seed)
    digests, traces = lc.run_ledger(c, PID, behs, nshards=6, validators=1 if c.tier == "quick" else 2)
    lc.validate_traces(c, traces, rng)
    # chain + pool + local production composed (NodePool.tla): reorganisations that return transactions to the pool, the same
    # transaction on both branches, production from the pool after a branch switch
    from checks import nodepool_common
    nodepool_common.run_nodepool(c, PID)
