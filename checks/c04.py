import random
import vlib
from checks import ledger_common as lc

PID = "C04"
LEVEL = "model_checking"
RULE = 'a case is one offered transaction or one forged block; distinct = distinct (regime, template/nonce mode, class, kind)'
MANIFEST = dict(category=LEVEL, design_ref='DESIGN.md §5 C04',
    text="Ledger.tla's OnlyAuthorised / NonceSequential (a transaction takes effect only when signed by the sender's key, bound to this chain and carrying exactly nonce+1; no transaction twice) are checked exhaustively by TLC including replays. Really signed adversarial transactions (wrong key, altered signature, other chain id, gap/duplicate nonce, replay of an executed transaction) are offered to the real pool and to the real executor, and blocks carrying them are built by the production path itself and delivered to a fresh validator: none may be executed; executed nonces per account must be sequential within and across blocks; reorganisations returning transactions are covered by ChainDB.tla replays.",
    note="VM stub for contract execution; in-memory verifdb store; stub consensus; fees are read from receipts, never predicted",
    technique='TLA+/TLC authorisation model + really signed forgeries through pool, executor and validator')


def run(c):
    rng = random.Random(c.seed)
    c.rule = RULE
    c.assumptions = ["VM stub interprets contract payloads (contract/contract.go Execute is the real code)", "in-memory store", "stub consensus", "TLC 1.8.0"]
    lc.design_checks(c)
    n, depth = (36, 18) if c.tier == "quick" else (400, 26)
    behs = lc.handmade() + lc.simulate(c, n, depth, c.seed)
    digests, traces = lc.run_ledger(c, PID, behs, nshards=6, validators=1 if c.tier == "quick" else 2)
    lc.validate_traces(c, traces, rng)
