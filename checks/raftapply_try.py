#!/usr/bin/env python3
"""Standalone driver of the RaftApply extension of C16 (spec/raft/RaftApply.tla):

    VERIF_WORK=/tmp/ra python3 checks/raftapply_try.py        (VERIF_TIER / VERIF_SEED / VERIF_REPO as for bin/vcheck)

Runs checks/raftapply_common.run_raftapply through vlib.run_check under the property id RA-C16 and removes the evidence
file it wrote, so /verif/evidence is left as it was.  Exit code contract as bin/vcheck."""
import glob, os, sys
ROOT = os.path.dirname(os.path.dirname(os.path.abspath(__file__)))
sys.path.insert(0, os.path.join(ROOT, "tools"))
sys.path.insert(0, ROOT)
import vlib
from checks import raftapply_common as rac


def main():
    def run(c):
        c.rule = ("a case is one step of a TLC-generated behaviour of RaftApply.tla replayed on the real Ready loop / block factory / "
                  "chain service and read back in full, or one crash image (prefix of the write journal) restarted, replayed and caught up; "
                  "distinct = distinct (behaviour, step) / (behaviour, crash point)")
        c.assumptions = ["etcd/raft is the environment (assumptions E1..E4 of RaftApply.tla); the raft.Node feeding the Ready loop and the "
                         "transport are stand-ins; one cluster member; store commits are atomic", "TLC 1.8.0"]
        rac.run_raftapply(c)
    try:
        return vlib.run_check("RA-C16", "model_checking", run)
    finally:
        for d in (os.path.join(vlib.VERIF, "evidence"), os.path.join(vlib.WORK, "evidence")):
            for f in glob.glob(os.path.join(d, "RA-*.json")) + glob.glob(os.path.join(d, ".RA-*.tmp")):
                try:
                    os.remove(f)
                except OSError:
                    pass


if __name__ == "__main__":
    sys.exit(main())
