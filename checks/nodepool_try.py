#!/usr/bin/env python3
"""Standalone driver of the NodePool composition check (the part of C04 / C13 built on spec/node/NodePool.tla):

    VERIF_WORK=/tmp/np python3 checks/nodepool_try.py C04        (or C13; VERIF_TIER / VERIF_SEED / VERIF_REPO as for bin/vcheck)

Runs checks/nodepool_common.run_nodepool through vlib.run_check under the property id NP-<pid> and removes the evidence
file it wrote, so /verif/evidence is left as it was.  Exit code contract as bin/vcheck."""
import glob, os, sys
ROOT = os.path.dirname(os.path.dirname(os.path.abspath(__file__)))
sys.path.insert(0, os.path.join(ROOT, "tools"))
sys.path.insert(0, ROOT)
import vlib
from checks import nodepool_common as npc


def main():
    pid = (sys.argv[1] if len(sys.argv) > 1 else "C13").upper()
    if pid not in npc.KINDS:
        print("usage: nodepool_try.py C04|C13")
        return 2

    def run(c):
        c.rule = "a case is one replayed step (submission, block arrival, production round); distinct = distinct (tree, validity assignment, step prefix)"
        c.assumptions = ["stub consensus, in-memory store, transfers only, one verifier actor in the pool", "TLC 1.8.0"]
        npc.run_nodepool(c, pid)
    try:
        return vlib.run_check("NP-" + pid, "model_checking", run)
    finally:
        for d in (os.path.join(vlib.VERIF, "evidence"), os.path.join(vlib.WORK, "evidence")):
            for f in glob.glob(os.path.join(d, "NP-*.json")) + glob.glob(os.path.join(d, ".NP-*.tmp")):
                try:
                    os.remove(f)
                except OSError:
                    pass


if __name__ == "__main__":
    sys.exit(main())
