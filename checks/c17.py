"""C17 — block sync delivers a gap-free ascending chain from a true common ancestor.
spec/sync/Syncer.tla; binding: TLC behaviours (every transition of a small instance + simulated behaviours of
larger ones) replayed message by message on the real syncer.Syncer (harness/syncer)."""
import json, os, random, re, shutil, subprocess, threading, time
from collections import deque
import vlib

LEVEL = "model_checking"
MANIFEST = dict(
    category=LEVEL, design_ref="DESIGN.md §5 C17",
    text="Syncer.tla (one action per message handled by the syncer actor: finder light/full scan, hash fetcher, block fetcher scheduling "
         "with retry queue / bad peers / pending-connect limit, block processor connect queue, FIFO of the goroutines' own messages, "
         "stale messages of earlier sessions, stop requests, timeouts) is model-checked exhaustively for all chain pairs within bounds: "
         "ascending contiguous delivery from the ancestor, common/highest ancestor, truthful notification, actor never blocked, "
         "restartable; liveness Terminates under fairness on a small instance. Every transition of two small instances (edge covers) and "
         "simulated behaviours of a larger one are replayed message by message on the real syncer.Syncer with the harness as "
         "requester and mailbox: outstanding requests, self messages, AddBlock sequence, ancestor, running flag, sequence number and "
         "notifications are compared with the model after every message; the property predicates (gap/duplicate/non-child delivery, "
         "ancestor on both chains, false success, missing notification, blocked actor, no termination, restart) are evaluated on "
         "every output; every behaviour is completed honestly and followed by a fresh session. ChunkRecv.tla (p2p response "
         "receivers) is checked and replayed the same way. End-to-end scenarios run the Syncer against real chain.ChainService "
         "instances (real anchors, findAncestor, addBlock/reorg, chains > 512 blocks). The schedules in which TLC sees the actor "
         "block forever are replayed on the real code.",
    note="replay: chain service and peers are harness stubs, anchors with the model's Skip/MaxAnchors; fetch-task timeouts by "
         "back-dating FetchTask.started, finder/hash-fetcher timeouts by short real timers; message-level interleavings only "
         "(helper goroutines quiescent between messages); sync peer honest-or-failing for ancestor/hash queries; e2e scenarios and "
         "simulated behaviours are sampled",
    technique="TLA+/TLC exhaustive model + liveness; replay of every TLC transition (edge cover), of simulated behaviours and of TLC "
              "counterexamples into the real syncer; seeded end-to-end driver with the property predicates")
SPEC_DIR = os.path.join(vlib.SPEC, "sync")
LOCK = threading.Lock()      # Check objects are filled from several threads


class TestBin:
    """One `go test -c` of a package of the CURRENT tree through the overlay per run of the check; the binary is run several
    times with different inputs (vlib.go_test would rebuild and relink it for every call)."""

    def __init__(self, c, pkg):
        self.c, self.pkg, self.exe, self.lock = c, pkg, None, threading.Lock()

    def build(self):
        with self.lock:
            if self.exe:
                return
            ov = vlib.gen_overlay()
            d = os.path.join(self.c.work, "gobin")
            os.makedirs(d, exist_ok=True)
            exe = os.path.join(d, "c17-%s.test" % self.pkg.strip("./").replace("/", "_"))
            cmd = ["go", "test", "-c", "-tags", "verif", "-overlay", ov, "-vet=off", "-o", exe, self.pkg]
            try:
                r = subprocess.run(cmd, cwd=vlib.REPO, env=vlib.goenv(), capture_output=True, text=True, timeout=1800)
            except subprocess.TimeoutExpired:
                raise vlib.Infra("go test -c timed out: " + " ".join(cmd))
            if r.returncode != 0 or not os.path.exists(exe):
                raise vlib.Infra("harness does not build (%s):\n%s" % (self.pkg, (r.stdout + r.stderr)[-4000:]))
            self.exe = exe

    def run(self, run, env, timeout=1800, cwd=None, tag="x"):
        self.build()
        cwd = cwd or os.path.join(self.c.work, "gobin", "cwd-" + tag)
        os.makedirs(cwd, exist_ok=True)
        e = dict(env)
        e.setdefault("TMPDIR", cwd)
        try:
            r = subprocess.run([self.exe, "-test.run", run, "-test.timeout", "%ds" % timeout, "-test.count", "1"], cwd=cwd,
                               env=vlib.goenv(e), capture_output=True, text=True, timeout=timeout + 60)
        except subprocess.TimeoutExpired:
            raise vlib.Infra("harness timed out: %s %s" % (self.pkg, run))
        return r.returncode, r.stdout + r.stderr


BINS = {}


def test_bin(c, pkg):
    with LOCK:
        if (id(c), pkg) not in BINS:
            BINS[(id(c), pkg)] = TestBin(c, pkg)
        return BINS[(id(c), pkg)]


def req_ok(c, res, what):
    with LOCK:
        c.require_ok(res, what)


def absorb(c, outpath, output):
    with LOCK:
        return c.absorb_go(outpath, output)

GEN_PARAMS = dict(NPeers=2, ChunkSize=2, HashReq=2, MaxTasks=2, MaxPendingConn=2, MaxFail=2, Skip=2, MaxAnchors=2)


# --------------------------------------------------------------------------- parsing the generation log

def _unq(s):
    return s.replace('\\"', '"').replace("\\\\", "\\")


def parse_gen(out):
    """lines "TR|<src>|ACT|<act>|DST|<dst>|PROJ|<proj>" -> [(src_text, act, dst_text, proj)]"""
    trs = []
    for line in out.splitlines():
        if not line.startswith('"TR|'):
            continue
        body = line[4:-1]
        src, rest = body.split("|ACT|", 1)
        act, rest = rest.split("|DST|", 1)
        dst, proj = rest.split("|PROJ|", 1)
        trs.append((src, vlib.parse_value(_unq(act)), dst, vlib.parse_value(_unq(proj))))
    return trs


def conv_act(a):
    d = dict(name=a["name"])
    for k in ("t", "kind", "p", "s", "c", "r", "n", "ok"):
        if k in a:
            d[k] = a[k]
    if "tasks" in a:
        d["tasks"] = [[t["p"], t["s"]] for t in a["tasks"]]
    return d


def conv_proj(p):
    return dict(
        reqs=sorted("%s:%d:%d:%d:%d" % (r["k"], r["a"], r["b"], r["c"], r["d"]) for r in p["reqs"]),
        selfq=["%s:%d:%s:%d" % (m["m"], m["sq"], m["who"], m["v"]) for m in p["selfq"]],
        dlv=list(p["dlv"]), running=p["running"], phase=p["phase"], anc=p["anc"],
        notif=list(p["notif"]), seq=p["seq"], target=p["target"])


def conv_ch(p):
    c = p["ch"]
    return dict(lbest=c["lbest"], rbest=c["rbest"], fork=c["fork"], full=c["full"])


def edge_cover(trs, rng, max_len=40):
    """Paths from initial states covering every transition.  Returns list of lists of transition indices."""
    out, indeg = {}, {}
    for i, (s, a, d, p) in enumerate(trs):
        out.setdefault(s, []).append(i)
        if d != s:
            indeg[d] = indeg.get(d, 0) + 1
        indeg.setdefault(s, indeg.get(s, 0))
    inits = [s for s in out if indeg.get(s, 0) == 0]
    parent = {s: None for s in inits}
    dq = deque(inits)
    while dq:
        s = dq.popleft()
        for i in out.get(s, []):
            d = trs[i][2]
            if d not in parent:
                parent[d] = i
                dq.append(d)

    def path_to(s):
        p = []
        while parent[s] is not None:
            i = parent[s]
            p.append(i)
            s = trs[i][0]
        p.reverse()
        return p

    covered, paths = set(), []
    order = list(range(len(trs)))
    rng.shuffle(order)
    # states that still have an uncovered outgoing transition
    open_cnt = {s: len(v) for s, v in out.items()}

    def cover(j):
        if j not in covered:
            covered.add(j)
            open_cnt[trs[j][0]] -= 1

    def walk_to_open(cur, budget):
        """shortest walk (through any transitions) from cur to a state with an uncovered outgoing transition"""
        if budget <= 0:
            return None
        seen = {cur: None}
        dq2 = deque([(cur, 0)])
        while dq2:
            s, dist = dq2.popleft()
            if dist >= budget:
                continue
            for j in out.get(s, []):
                d = trs[j][2]
                if d in seen or d == s:
                    continue
                seen[d] = j
                if open_cnt.get(d, 0) > 0:
                    w = []
                    while seen[d] is not None:
                        w.append(seen[d])
                        d = trs[seen[d]][0]
                    w.reverse()
                    return w
                dq2.append((d, dist + 1))
        return None

    for i in order:
        if i in covered or trs[i][0] not in parent:
            continue
        p = path_to(trs[i][0]) + [i]
        for j in p:
            cover(j)
        cur = trs[i][2]
        while len(p) < max_len:
            nxt = [j for j in out.get(cur, []) if j not in covered]
            if nxt:
                j = nxt[rng.randrange(len(nxt))]
                p.append(j)
                cover(j)
                cur = trs[j][2]
                continue
            w = walk_to_open(cur, min(6, max_len - len(p)))
            if not w:
                break
            for j in w:
                p.append(j)
                cover(j)
            cur = trs[w[-1]][2]
        paths.append(p)
    unreachable = [i for i in range(len(trs)) if trs[i][0] not in parent]
    return paths, len(covered), unreachable


def behaviours_from_graph(trs, paths):
    bs = []
    for n, p in enumerate(paths):
        steps = [dict(act=conv_act(trs[i][1]), exp=conv_proj(trs[i][3])) for i in p]
        bs.append(dict(id="g%d" % n, ch=conv_ch(trs[p[0]][3]), steps=steps))
    return bs


# --------------------------------------------------------------------------- simulated behaviours (larger instances)

_VAR_RE = re.compile(r"(?m)^/\\ (\w+) = ")


def _state_vars(txt):
    """split '/\\ a = ...\n/\\ b = ...' into {name: text} without parsing the values"""
    parts = _VAR_RE.split("\n" + txt.strip())
    d = {}
    for i in range(1, len(parts) - 1, 2):
        d[parts[i]] = parts[i + 1].strip()
    return d


def parse_sim_file(path):
    txt = open(path).read()
    states = []
    for m in re.finditer(r"STATE_\d+ ==\s*\n(.*?)(?=\n\s*\n(?:\\\*[^\n]*\n)?STATE_|\n=+|\Z)", txt, re.S):
        states.append(_state_vars(m.group(1)))
    return states


def behaviour_from_sim(states, bid):
    pv = vlib.parse_value
    steps = []
    ch = None
    for st in states[1:]:
        act = pv(st["lastAct"])
        f_dlv = re.search(r"dlv \|-> (<<[^>]*>>)", st["f"])
        proj = dict(reqs=pv(st["reqs"]), selfq=pv(st["selfq"]), dlv=pv(f_dlv.group(1)), running=pv(st["running"]),
                    phase=pv(st["phase"]), anc=pv(st["anc"]), notif=pv(st["notif"]), seq=pv(st["seq"]), target=pv(st["target"]),
                    ch=pv(st["ch"]))
        if ch is None:
            ch = conv_ch(proj)
        steps.append(dict(act=conv_act(act), exp=conv_proj(proj)))
    if not steps:
        return None
    return dict(id=bid, ch=ch, steps=steps)


def simulate(c, cfg, num, depth, tag):
    """tlc -simulate on MC_Syncer with cfg; returns behaviours"""
    pre = os.path.join(c.work, "sim_" + tag)
    os.makedirs(pre, exist_ok=True)
    res = vlib.tlc(SPEC_DIR, "MC_Syncer", cfg, c.work, workers=4, timeout=1500,
                   args=["-simulate", "file=%s/t,num=%d" % (pre, num), "-depth", str(depth), "-seed", str(c.seed * 7919 + len(tag))])
    if "Error:" in res.out and "Invariant" in res.out:
        raise vlib.Infra("simulation found a design error:\n" + res.out[-3000:])
    bs = []
    for fn in sorted(os.listdir(pre)):
        b = behaviour_from_sim(parse_sim_file(os.path.join(pre, fn)), "%s-%s" % (tag, fn))
        if b:
            bs.append(b)
    with LOCK:
        c.configs.append(dict(cfg=cfg, what="simulation (%s): %d behaviours, depth<=%d" % (tag, len(bs), depth), wall_s=round(res.wall, 1)))
    return bs


def cfg_params(cfgname):
    txt = open(os.path.join(SPEC_DIR, cfgname)).read()
    p = {}
    for k in GEN_PARAMS:
        m = re.search(r"(?m)^\s*%s\s*=\s*(\d+)" % k, txt)
        p[k] = int(m.group(1))
    return p


# --------------------------------------------------------------------------- driving the harness

def run_harness(c, params, behaviours, tag, par=24, timeout=3000):
    vlib.log("[c17] replaying %d behaviours (%s) t=%.0fs" % (len(behaviours), tag, time.time() - c.t0))
    inp = dict(params=params, behaviours=behaviours, par=par, restart_every=1 if c.tier == "thorough" else 2)
    inpath = os.path.join(c.work, "syncer_in_%s.json" % tag)
    json.dump(inp, open(inpath, "w"))
    outpath = os.path.join(c.work, "syncer_out_%s.json" % tag)
    rc, output = test_bin(c, "./syncer/").run("^TestVerifSyncer$", {"VERIF_IN": inpath, "VERIF_OUT": outpath,
                                              "VERIF_SEED": c.seed, "VERIF_TIER": c.tier}, timeout=timeout, tag=tag)
    r = absorb(c, outpath, output)
    if rc != 0 and not r.get("violations"):
        raise vlib.Infra("harness failed:\n" + output[-3000:])
    div = (r.get("extra") or {}).get("divergences", 0)
    if div and not r.get("violations"):
        notes = [n for n in (r.get("notes") or []) if n.startswith("DIVERGENCE")]
        raise vlib.Infra("the real syncer left the model on %d of %d behaviours without violating the property "
                         "(model and code no longer correspond):\n%s" % (div, len(behaviours), "\n".join(notes[:3])[:3000]))
    return r


def e2e_scenarios(tier, rng):
    """long-chain end-to-end scenarios against real chain services (real anchors: Skip 16, MaxAnchors 32)"""
    S = []

    def add(lbest, rbest, fork, full=False, rate=0.0, mf=0, chunk=10, hashreq=50, tasks=3, pend=4, peers=3):
        S.append(dict(id="e%d" % len(S), lbest=lbest, rbest=rbest, fork=fork, target=rbest, npeers=peers, chunk=chunk, hashreq=hashreq,
                      maxtasks=tasks, maxpend=pend, full=full, fault_rate=rate, max_faults=mf, seed=rng.randrange(1 << 30),
                      remote_knows_local=(len(S) % 3 != 2)))
    # anchors reach the genesis block; forks between anchors; faulty peers
    add(rng.randrange(20, 60), rng.randrange(70, 110), rng.randrange(0, 20), rate=0.15, mf=8, chunk=4, hashreq=10)
    # more than 32 anchors: last anchor > 0; fork below it => honest "no ancestor" and full scan
    lb = rng.randrange(513, 560)
    add(lb, lb + rng.randrange(5, 40), rng.randrange(0, lb - 31 * 16), rate=0.05, mf=5)
    if tier == "thorough":
        # ... fork above the last anchor => light scan
        lb = rng.randrange(513, 560)
        add(lb, lb + rng.randrange(5, 40), rng.randrange(lb - 31 * 16, lb + 1))
        for lb in (0, 1, 15, 16, 17, 31, 32, 33, 495, 496, 497, 511, 512, 513):      # anchor arithmetic edges
            add(lb, lb + rng.randrange(3, 30), rng.randrange(0, lb + 1), rate=0.05, mf=3, chunk=rng.choice([1, 3, 10]), hashreq=rng.choice([7, 50]))
        for _ in range(6):
            lb = rng.randrange(513, 700)
            add(lb, lb + rng.randrange(5, 60), rng.randrange(0, lb + 1), full=rng.random() < 0.3, rate=0.1, mf=10,
                chunk=rng.choice([2, 5, 10]), hashreq=rng.choice([10, 50]), tasks=rng.choice([2, 5]), pend=rng.choice([1, 4, 10]), peers=rng.choice([2, 4]))
        for _ in range(6):
            lb = rng.randrange(5, 80)
            add(lb, lb + rng.randrange(5, 80), rng.randrange(0, lb + 1), full=rng.random() < 0.5, rate=0.25, mf=12,
                chunk=rng.choice([1, 2, 5]), hashreq=rng.choice([3, 10]), tasks=rng.choice([2, 5]), pend=rng.choice([1, 2, 10]), peers=rng.choice([1, 2, 4]))
    return S


def run_e2e(c, scenarios):
    vlib.log("[c17] %d e2e scenarios t=%.0fs" % (len(scenarios), time.time() - c.t0))
    inpath = os.path.join(c.work, "syncer_e2e_in.json")
    json.dump(dict(scenarios=scenarios), open(inpath, "w"))
    outpath = os.path.join(c.work, "syncer_e2e_out.json")
    rc, output = test_bin(c, "./syncer/").run("^TestVerifSyncerE2E$", {"VERIF_IN": inpath, "VERIF_OUT": outpath,
                                              "VERIF_SEED": c.seed, "VERIF_TIER": c.tier}, timeout=3000, tag="e2e")
    r = absorb(c, outpath, output)
    if rc != 0 and not r.get("violations"):
        raise vlib.Infra("e2e harness failed:\n" + output[-3000:])
    if (r.get("extra") or {}).get("divergences") and not r.get("violations"):
        raise vlib.Infra("e2e: the chain service's anchors differ from Syncer.tla's Anchors (Skip 16, MaxAnchors 32):\n%s"
                         % "\n".join(n for n in (r.get("notes") or []) if n.startswith("DIVERGENCE"))[:2000])
    return r


def behaviour_from_error_trace(res, bid):
    steps, ch = [], None
    for act, st in res.error_trace[1:]:
        if "_raw" in st:
            raise vlib.Infra("cannot parse the counterexample of " + res.cfg)
        proj = dict(reqs=st["reqs"], selfq=st["selfq"], dlv=st["f"]["dlv"], running=st["running"], phase=st["phase"], anc=st["anc"],
                    notif=st["notif"], seq=st["seq"], target=st["target"], ch=st["ch"])
        if ch is None:
            ch = conv_ch(proj)
        steps.append(dict(act=conv_act(st["lastAct"]), exp=conv_proj(proj)))
    return dict(id=bid, ch=ch, steps=steps)


RACES = [("Race_Syncer_finder.cfg", "TrapLateFinderRsp", "hashbyno-response-after-finder-timeout",
          "a GetHashByNoRsp queued ahead of the SyncStop of a finder that has timed out (Finder.GetHashByNoRsp must drop it; "
          "before bcac7c21 it sent on fScanCh, which nobody receives from any more)"),
         ("Race_Syncer_buffer.cfg", "TrapBufferOverflow", "responses-for-ended-blockfetcher-exceed-buffer",
          "more than 2*maxBlockReqTasks responses queued ahead of the SyncStop of a block fetcher that has ended "
          "(BlockFetcher.handleBlockRsp must drop what does not fit; before 9f6c2e3b it sent on the full responseCh, which nobody reads any more)")]


def race_hunt(c):
    """The two late-message schedules, found by TLC as counterexamples of 'trap' invariants of the (repaired) model."""
    return [(cfg, trap, name, what, vlib.tlc(SPEC_DIR, "MC_Syncer", cfg, os.path.join(c.work, "race"), workers=2, timeout=1500))
            for cfg, trap, name, what in RACES]


def race_replays(c, hunted):
    """Both schedules are replayed on the real syncer: the actor must not block, the model's state must be matched after every
    message, the session must end and a fresh session must start and succeed.  A blocked actor is a violation."""
    bs = []
    for cfg, trap, name, what, res in hunted:
        with LOCK:
            c.add_tlc(res, "schedule finder %s (expected: trap %s reached)" % (cfg, trap))
        if res.violation != trap or not res.error_trace:
            raise vlib.Infra("%s did not produce the expected schedule (%s)\n%s" % (cfg, res.violation, res.out[-2000:]))
        bs.append(behaviour_from_error_trace(res, "race-" + name))
    params = cfg_params(RACES[0][0])
    if any(cfg_params(r[0]) != params for r in RACES):
        raise vlib.Infra("the race configurations must share the syncer parameters")
    inpath = os.path.join(c.work, "syncer_in_race.json")
    json.dump(dict(params=params, behaviours=bs, par=2, restart_every=1), open(inpath, "w"))
    outpath = os.path.join(c.work, "syncer_out_race.json")
    rc, output = test_bin(c, "./syncer/").run("^TestVerifSyncer$", {"VERIF_IN": inpath, "VERIF_OUT": outpath,
                                              "VERIF_SEED": c.seed, "VERIF_TIER": c.tier}, timeout=600, tag="race")
    if not os.path.exists(outpath):
        raise vlib.Infra("race replay wrote no result:\n" + output[-3000:])
    r = json.load(open(outpath))
    by_id = {"race-" + name: (name, what) for _cfg, _trap, name, what in RACES}
    for b in bs:
        c.count(b["id"])
    vs = r.get("violations") or []
    for v in vs:
        bid = ((v.get("replay") or {}).get("behaviour") or {}).get("id")
        sig = dict(v.get("sig") or {})
        if sig.get("kind") == "actor-blocked" and bid in by_id:
            name, what = by_id[bid]
            c.violation(dict(kind="actor-blocked", race=name), dict(behaviour=bid, schedule=[st["act"] for st in v["replay"]["behaviour"]["steps"]]),
                        "the syncer actor blocks forever: %s.\n%s" % (what, v.get("text", "")[:2500]))
        else:
            c.violation(sig, v.get("replay", {}), v.get("text", ""))
    div = (r.get("extra") or {}).get("divergences", 0)
    if div and not vs:
        raise vlib.Infra("race replay: the real syncer left the model:\n%s" % "\n".join(n for n in (r.get("notes") or []) if n.startswith("DIVERGENCE"))[:3000])
    if not vs:
        c.notes.append("late-message schedules replayed: actor not blocked, sessions ended, fresh sessions succeeded (%s)" % ", ".join(b["id"] for b in bs))


def recv_check(c):
    """p2p side: the response receivers (ChunkRecv.tla), every transition replayed on the real receivers"""
    for kind in ("blocks", "hashes"):
        cfg = "MC_ChunkRecv_%s.cfg" % kind
        res = vlib.tlc(SPEC_DIR, "MC_ChunkRecv", cfg, os.path.join(c.work, "recv"), workers=1, timeout=900)
        req_ok(c, res, "response receiver design + transition enumeration (%s)" % kind)
        trs = vlib.parse_transitions(res.out)
        if len(trs) < 1000:
            raise vlib.Infra("too few receiver transitions: %d" % len(trs))
        key = lambda st: json.dumps(st)
        parent, init = {}, None
        out = {}
        for i, (s, a, d) in enumerate(trs):
            out.setdefault(key(s), []).append(i)
        init = key(["waiting", [], [], 0])
        parent[init] = None
        dq = deque([init])
        while dq:
            s = dq.popleft()
            for i in out.get(s, []):
                d = key(trs[i][2])
                if d not in parent:
                    parent[d] = i
                    dq.append(d)

        def conv(st):
            return dict(status=st[0], got=st[1], sent=[(m[1] if m[0] == "ok" else []) for m in st[2]])
        paths = []
        for i, (s, a, d) in enumerate(trs):
            p, cur = [i], key(s)
            if cur not in parent:
                raise vlib.Infra("receiver transition not reachable")
            while parent[cur] is not None:
                p.append(parent[cur])
                cur = key(trs[parent[cur]][0])
            p.reverse()
            paths.append(dict(steps=[dict(part=dict(items=trs[j][1]["items"], hasNext=trs[j][1]["hasNext"], ok=trs[j][1]["ok"]),
                                          exp=conv(trs[j][2])) for j in p]))
        inpath = os.path.join(c.work, "recv_in_%s.json" % kind)
        json.dump(dict(kind=kind, n=3, paths=paths), open(inpath, "w"))
        outpath = os.path.join(c.work, "recv_out_%s.json" % kind)
        # the p2p package's own test init() loads ./test/sample/sample.key: run in a scratch copy of that layout
        rt = os.path.join(c.work, "rt", "p2p")
        os.makedirs(os.path.join(rt, "test"), exist_ok=True)
        if not os.path.isdir(os.path.join(rt, "test", "sample")):
            shutil.copytree(os.path.join(vlib.REPO, "p2p", "test", "sample"), os.path.join(rt, "test", "sample"))
        rc, output = test_bin(c, "./p2p/").run("^TestVerifSyncRecv$", {"VERIF_IN": inpath, "VERIF_OUT": outpath,
                                               "VERIF_SEED": c.seed, "VERIF_TIER": c.tier}, timeout=1500, cwd=rt)
        r = absorb(c, outpath, output)
        if rc != 0 and not r.get("violations"):
            raise vlib.Infra("receiver harness failed:\n" + output[-3000:])
        if (r.get("extra") or {}).get("divergences") and not r.get("violations"):
            raise vlib.Infra("the real %s receiver left the model:\n%s" % (kind, "\n".join((r.get("notes") or [])[:3])[:2000]))


def findanc_check(c):
    """responder side of the anchor comparison (FindAncestor.tla): every anchor list replayed on the real findAncestor of a
    real chain service that holds a real side branch"""
    res = vlib.tlc(SPEC_DIR, "MC_FindAncestor", "MC_FindAncestor.cfg", os.path.join(c.work, "fa"), workers=1, timeout=900)
    req_ok(c, res, "findAncestor design + enumeration of anchor lists (main / side-branch / unknown blocks in every position)")
    trs = vlib.parse_transitions(res.out)
    if len(trs) < 500:
        raise vlib.Infra("too few findAncestor cases: %d" % len(trs))
    cases = [dict(anchors=a["anchors"], answer=d[1]) for (_s, a, d) in trs]
    if not any(cs["answer"][0] == "none" and cs["anchors"][-1][0] == "s" for cs in cases):
        raise vlib.Infra("no anchor list ending in a side-branch block without a main-chain anchor was generated")
    cfg = open(os.path.join(SPEC_DIR, "MC_FindAncestor.cfg")).read()
    k = {x: int(re.search(r"(?m)^\s*%s\s*=\s*(\d+)" % x, cfg).group(1)) for x in ("R", "F", "S")}
    inpath = os.path.join(c.work, "findanc_in.json")
    json.dump(dict(r=k["R"], f=k["F"], s=k["S"], cases=cases), open(inpath, "w"))
    outpath = os.path.join(c.work, "findanc_out.json")
    rc, output = test_bin(c, "./syncer/").run("^TestVerifFindAncestor$", {"VERIF_IN": inpath, "VERIF_OUT": outpath,
                                              "VERIF_SEED": c.seed, "VERIF_TIER": c.tier}, timeout=900, tag="fa")
    r = absorb(c, outpath, output)
    if rc != 0 and not r.get("violations"):
        raise vlib.Infra("findAncestor harness failed:\n" + output[-3000:])
    if (r.get("extra") or {}).get("divergences") and not r.get("violations"):
        raise vlib.Infra("the real findAncestor left the model:\n%s" % "\n".join((r.get("notes") or [])[:3])[:2000])


def graph_behaviours(c, cfg, rng, tag, min_trs):
    gen = vlib.tlc(SPEC_DIR, "MC_Syncer", cfg, os.path.join(c.work, "gen_" + tag), workers=1, timeout=2400)
    req_ok(c, gen, "Syncer transition enumeration (%s)" % cfg)
    trs = parse_gen(gen.out)
    if len(trs) < min_trs:
        raise vlib.Infra("too few transitions generated by %s: %d" % (cfg, len(trs)))
    paths, ncov, unreach = edge_cover(trs, rng)
    if unreach or ncov != len(trs):
        raise vlib.Infra("%s: %d transitions not covered" % (cfg, len(trs) - ncov))
    bs = behaviours_from_graph(trs, paths)
    for b in bs:
        b["id"] = tag + "-" + b["id"]
    return bs, len(trs)


def run(c):
    rng = random.Random(c.seed)
    c.rule = ("a case is one model behaviour (sequence of messages handled by the syncer actor, with faults, timeouts and stop "
              "requests) replayed on the real Syncer, completed honestly and followed by a fresh session, one response-part sequence "
              "replayed on a p2p receiver, or one end-to-end scenario against real chain services; distinct = distinct cases")
    c.assumptions = ["replay: chain service and peers are harness stubs; the sync peer answers ancestor/hash queries honestly or fails",
                     "responses are delivered one at a time after the syncer's goroutines became quiescent (message-level interleaving only)",
                     "fetch-task timeouts emulated by back-dating FetchTask.started; finder/hash-fetcher timeouts by short real timers",
                     "e2e: real chain.ChainService on memorydb with a stub consensus and the VM stub; TLC 1.8.0"]
    thorough = c.tier == "thorough"
    e2e = e2e_scenarios(c.tier, random.Random(c.seed * 31 + 7))
    # A. exhaustive design-level checks (background)
    mcs = [("MC_Syncer.cfg", "Syncer design: one session, all chain pairs (local<=2, remote<=4), <=2 faults, stop request, multi-expiry, late messages"),
           ("MC_Syncer_restart.cfg", "Syncer design: two sessions (stale messages, sequence-less AddBlockRsp, restart), <=1 fault"),
           ("MC_Syncer_live.cfg", "Syncer liveness: Terminates under fairness (small instance)")]
    if thorough:
        mcs.append(("MC_Syncer_big.cfg", "Syncer design, larger instance: two sessions, local<=2, remote<=5, <=2 faults"))
    mc_results, hunted, errors = [], [], []

    def mc_thread(part):
        try:
            if part == 0:
                hunted.extend(race_hunt(c))
            for cfg, what in mcs[part::2]:
                mc_results.append((vlib.tlc(SPEC_DIR, "MC_Syncer", cfg, os.path.join(c.work, "mc%d" % part), workers=4 if not thorough else 8,
                                            timeout=5400, heap="12g" if thorough else None), what))
        except Exception as e:
            errors.append(e)

    # B. p2p receivers and the end-to-end scenarios (background; other packages / other test functions)
    def recv_thread():
        try:
            recv_check(c)
        except Exception as e:
            errors.append(e)

    def e2e_thread():
        try:
            findanc_check(c)
            run_e2e(c, e2e)
        except Exception as e:
            errors.append(e)

    # the three behaviour sources are generated concurrently (TLC start-up dominates), the test binary is built meanwhile
    gcfg = "Gen_Syncer.cfg"
    ocfg = "Gen_Syncer_order1.cfg" if thorough else "Gen_Syncer_order.cfg"
    gens = {}

    def gen_thread(key, fn):
        try:
            gens[key] = fn()
        except Exception as e:
            gens[key] = e
    gths = [threading.Thread(target=gen_thread, args=("g", lambda: graph_behaviours(c, gcfg, random.Random(c.seed), "g", 5000))),
            threading.Thread(target=gen_thread, args=("o", lambda: graph_behaviours(c, ocfg, random.Random(c.seed + 1), "o", 1500))),
            threading.Thread(target=gen_thread, args=("s", lambda: simulate(c, "Sim_Syncer.cfg", 750 if thorough else 30, 60, "sim")))]

    def get(key, th):
        th.join()
        if isinstance(gens[key], Exception):
            raise gens[key]
        return gens[key]
    ths = [threading.Thread(target=mc_thread, args=(0,)), threading.Thread(target=mc_thread, args=(1,)),
           threading.Thread(target=recv_thread), threading.Thread(target=e2e_thread)]
    for th in gths + ths:
        th.start()
    try:
        test_bin(c, "./syncer/").build()
        # C. every transition of two small instances, as edge covers of paths from the initial states
        bs, n1 = get("g", gths[0])
        run_harness(c, cfg_params(gcfg), bs, "gen", par=40)
        note = "all %d transitions of %s (one session, light+full scan, <=1 fault%s) in %d paths" % (n1, gcfg, ", stop request", len(bs))
        if not c.violations:
            bs, n2 = get("o", gths[1])
            run_harness(c, cfg_params(ocfg), bs, "ord", par=40)
            note += "; all %d transitions of %s (every response order over two hash sets, 3 peers) in %d paths" % (n2, ocfg, len(bs))
        c.exhaustive = True
        c.extra["exhaustive_note"] = ("exhaustive over the generation instances: " + note + "; all transitions of the two receiver "
                                      "instances; simulated behaviours and e2e scenarios are sampled")
        # D. simulated behaviours of a larger instance (two sessions, 3 peers, <=4 faults)
        if not c.violations:
            bs2 = get("s", gths[2])
            run_harness(c, cfg_params("Sim_Syncer.cfg"), bs2, "sim", par=40)
    finally:
        for th in gths + ths:
            th.join()
    for e in errors:
        if isinstance(e, vlib.Infra) and c.violations:
            continue            # a violation was reproduced on the real code; that is the verdict
        raise e if isinstance(e, vlib.Infra) else vlib.Infra("background work failed: %r" % (e,))
    # E. the two late-message schedules (in which the unrepaired code blocked the actor forever), replayed on the real code
    if not c.violations:
        vlib.log("[c17] late-message schedules t=%.0fs" % (time.time() - c.t0))
        race_replays(c, hunted)
    for res, what in mc_results:
        c.require_ok(res, what)
    if len(mc_results) != len(mcs):
        raise vlib.Infra("design-level model checking did not run")
