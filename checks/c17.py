"""C17 — block sync delivers a gap-free ascending chain from a true common ancestor.
spec/sync/Syncer.tla; binding: TLC behaviours (every transition of a small instance + simulated behaviours of
larger ones) replayed message by message on the real syncer.Syncer (harness/syncer)."""
import json, os, random, re, time
from collections import deque
import vlib

LEVEL = "model_checking"
MANIFEST = dict(
    category=LEVEL, design_ref="DESIGN.md §5 C17",
    text="Syncer.tla (finder light/full scan, hash fetcher, block fetcher scheduling with retry/bad peers, block processor connect "
         "queue, self-message FIFO, stale messages, stop requests, timeouts; one action per message handled by the actor) is "
         "model-checked exhaustively for all chain pairs within bounds (invariants: ascending contiguous delivery from the ancestor, "
         "common/highest ancestor, truthful outcome, actor never blocked, restartable; liveness Terminates under fairness on a small "
         "instance). Every transition of a small instance and simulated behaviours of larger ones are replayed on the real Syncer "
         "with the harness as requester/mailbox: after each message the outstanding requests, self messages, AddBlock sequence, "
         "ancestor, running flag and notifications are compared with the model, the property predicates are evaluated on every "
         "output, each behaviour is then run to completion and a further session must start and succeed.",
    note="local chain service and peers are harness stubs (AddBlock: known->ok, orphan->error, longer branch->reorg); fetch-task "
         "timeouts are triggered by back-dating FetchTask.started, finder/hash-fetcher timeouts by short real timers; anchors use the "
         "model's Skip/MaxAnchors (the chain package's constants 16/32 are bound by the long-chain scenarios)",
    technique="TLA+/TLC exhaustive model + liveness; replay of every TLC transition (edge cover) and of simulated behaviours into the real syncer")
SPEC_DIR = os.path.join(vlib.SPEC, "sync")

GEN_PARAMS = dict(NPeers=2, ChunkSize=2, HashReq=2, MaxTasks=2, MaxPendingConn=2, MaxFail=2, Skip=2, MaxAnchors=2)


# --------------------------------------------------------------------------- parsing the generation log

def _unq(s):
    return s.replace('\\"', '"').replace("\\\\", "\\")


def parse_gen(out):
    """lines "TR|<src>|ACT|<act>|DST|<dst>|PROJ|<proj>" -> [(src_text, act, dst_text, proj)]"""
    trs = []
    for line in out.splitlines():
        if not line.startswith('"TR|'):
            continue
        body = line[4:-1]
        src, rest = body.split("|ACT|", 1)
        act, rest = rest.split("|DST|", 1)
        dst, proj = rest.split("|PROJ|", 1)
        trs.append((src, vlib.parse_value(_unq(act)), dst, vlib.parse_value(_unq(proj))))
    return trs


def conv_act(a):
    d = dict(name=a["name"])
    for k in ("t", "kind", "p", "s", "c", "r", "n", "ok"):
        if k in a:
            d[k] = a[k]
    if "tasks" in a:
        d["tasks"] = [[t["p"], t["s"]] for t in a["tasks"]]
    return d


def conv_proj(p):
    return dict(
        reqs=sorted("%s:%d:%d:%d:%d" % (r["k"], r["a"], r["b"], r["c"], r["d"]) for r in p["reqs"]),
        selfq=["%s:%d:%s:%d" % (m["m"], m["sq"], m["who"], m["v"]) for m in p["selfq"]],
        dlv=list(p["dlv"]), running=p["running"], phase=p["phase"], anc=p["anc"],
        notif=list(p["notif"]), seq=p["seq"], target=p["target"])


def conv_ch(p):
    c = p["ch"]
    return dict(lbest=c["lbest"], rbest=c["rbest"], fork=c["fork"], full=c["full"])


def edge_cover(trs, rng, max_len=60):
    """Paths from initial states covering every transition.  Returns list of lists of transition indices."""
    out, indeg = {}, {}
    for i, (s, a, d, p) in enumerate(trs):
        out.setdefault(s, []).append(i)
        if d != s:
            indeg[d] = indeg.get(d, 0) + 1
        indeg.setdefault(s, indeg.get(s, 0))
    inits = [s for s in out if indeg.get(s, 0) == 0]
    parent = {s: None for s in inits}
    dq = deque(inits)
    while dq:
        s = dq.popleft()
        for i in out.get(s, []):
            d = trs[i][2]
            if d not in parent:
                parent[d] = i
                dq.append(d)

    def path_to(s):
        p = []
        while parent[s] is not None:
            i = parent[s]
            p.append(i)
            s = trs[i][0]
        p.reverse()
        return p

    covered, paths = set(), []
    order = list(range(len(trs)))
    rng.shuffle(order)
    for i in order:
        if i in covered or trs[i][0] not in parent:
            continue
        p = path_to(trs[i][0]) + [i]
        covered.update(p)
        cur = trs[i][2]
        while len(p) < max_len:
            nxt = [j for j in out.get(cur, []) if j not in covered and trs[j][2] != cur]
            if not nxt:
                break
            j = nxt[rng.randrange(len(nxt))]
            p.append(j)
            covered.add(j)
            cur = trs[j][2]
        paths.append(p)
    unreachable = [i for i in range(len(trs)) if trs[i][0] not in parent]
    return paths, len(covered), unreachable


def behaviours_from_graph(trs, paths):
    bs = []
    for n, p in enumerate(paths):
        steps = [dict(act=conv_act(trs[i][1]), exp=conv_proj(trs[i][3])) for i in p]
        bs.append(dict(id="g%d" % n, ch=conv_ch(trs[p[0]][3]), steps=steps))
    return bs


# --------------------------------------------------------------------------- simulated behaviours (larger instances)

_VAR_RE = re.compile(r"(?m)^/\\ (\w+) = ")


def _state_vars(txt):
    """split '/\\ a = ...\n/\\ b = ...' into {name: text} without parsing the values"""
    parts = _VAR_RE.split("\n" + txt.strip())
    d = {}
    for i in range(1, len(parts) - 1, 2):
        d[parts[i]] = parts[i + 1].strip()
    return d


def parse_sim_file(path):
    txt = open(path).read()
    states = []
    for m in re.finditer(r"STATE_\d+ ==\s*\n(.*?)(?=\n\s*\n(?:\\\*[^\n]*\n)?STATE_|\n=+|\Z)", txt, re.S):
        states.append(_state_vars(m.group(1)))
    return states


def behaviour_from_sim(states, bid):
    pv = vlib.parse_value
    steps = []
    ch = None
    for st in states[1:]:
        act = pv(st["lastAct"])
        f_dlv = re.search(r"dlv \|-> (<<[^>]*>>)", st["f"])
        proj = dict(reqs=pv(st["reqs"]), selfq=pv(st["selfq"]), dlv=pv(f_dlv.group(1)), running=pv(st["running"]),
                    phase=pv(st["phase"]), anc=pv(st["anc"]), notif=pv(st["notif"]), seq=pv(st["seq"]), target=pv(st["target"]),
                    ch=pv(st["ch"]))
        if ch is None:
            ch = conv_ch(proj)
        steps.append(dict(act=conv_act(act), exp=conv_proj(proj)))
    if not steps:
        return None
    return dict(id=bid, ch=ch, steps=steps)


def simulate(c, cfg, num, depth, tag):
    """tlc -simulate on MC_Syncer with cfg; returns behaviours"""
    pre = os.path.join(c.work, "sim_" + tag)
    os.makedirs(pre, exist_ok=True)
    res = vlib.tlc(SPEC_DIR, "MC_Syncer", cfg, c.work, workers=4, timeout=1500,
                   args=["-simulate", "file=%s/t,num=%d" % (pre, num), "-depth", str(depth), "-seed", str(c.seed * 7919 + len(tag))])
    if "Error:" in res.out and "Invariant" in res.out:
        raise vlib.Infra("simulation found a design error:\n" + res.out[-3000:])
    bs = []
    for fn in sorted(os.listdir(pre)):
        b = behaviour_from_sim(parse_sim_file(os.path.join(pre, fn)), "%s-%s" % (tag, fn))
        if b:
            bs.append(b)
    c.configs.append(dict(cfg=cfg, what="simulation (%s): %d behaviours, depth<=%d" % (tag, len(bs), depth), wall_s=round(res.wall, 1)))
    return bs


def cfg_params(cfgname):
    txt = open(os.path.join(SPEC_DIR, cfgname)).read()
    p = {}
    for k in GEN_PARAMS:
        m = re.search(r"(?m)^\s*%s\s*=\s*(\d+)" % k, txt)
        p[k] = int(m.group(1))
    return p


# --------------------------------------------------------------------------- driving the harness

def run_harness(c, params, behaviours, tag, par=24, timeout=3000):
    inp = dict(params=params, behaviours=behaviours, par=par)
    inpath = os.path.join(c.work, "syncer_in_%s.json" % tag)
    json.dump(inp, open(inpath, "w"))
    outpath = os.path.join(c.work, "syncer_out_%s.json" % tag)
    rc, output = vlib.go_test("./syncer/", "^TestVerifSyncer$", env={"VERIF_IN": inpath, "VERIF_OUT": outpath,
                              "VERIF_SEED": c.seed, "VERIF_TIER": c.tier}, timeout=timeout)
    r = c.absorb_go(outpath, output)
    if rc != 0 and not r.get("violations"):
        raise vlib.Infra("harness failed:\n" + output[-3000:])
    div = (r.get("extra") or {}).get("divergences", 0)
    if div and not r.get("violations"):
        notes = [n for n in (r.get("notes") or []) if n.startswith("DIVERGENCE")]
        raise vlib.Infra("the real syncer left the model on %d of %d behaviours without violating the property "
                         "(model and code no longer correspond):\n%s" % (div, len(behaviours), "\n".join(notes[:3])[:3000]))
    return r


def run(c):
    rng = random.Random(c.seed)
    c.rule = ("a case is one model behaviour (sequence of messages handled by the syncer actor, with faults, timeouts and stop "
              "requests) replayed on the real Syncer, completed honestly and followed by a fresh session; distinct = distinct behaviours")
    c.assumptions = ["chain service and peers are harness stubs; the sync peer answers ancestor/hash queries honestly or fails",
                     "responses are delivered one at a time after the syncer's goroutines became quiescent (message-level interleaving only)",
                     "fetch-task timeouts emulated by back-dating FetchTask.started; TLC 1.8.0"]
    thorough = c.tier == "thorough"
    # 1. exhaustive design-level checks
    res = vlib.tlc(SPEC_DIR, "MC_Syncer", "MC_Syncer.cfg", c.work, timeout=1500)
    c.require_ok(res, "Syncer design: one session, all chain pairs, <=2 faults, stop request")
    res = vlib.tlc(SPEC_DIR, "MC_Syncer", "MC_Syncer_restart.cfg", c.work, timeout=1500)
    c.require_ok(res, "Syncer design: two sessions (stale messages, restart), <=1 fault")
    res = vlib.tlc(SPEC_DIR, "MC_Syncer", "MC_Syncer_live.cfg", c.work, timeout=1500)
    c.require_ok(res, "Syncer liveness: Terminates under fairness (small instance)")
    if thorough:
        res = vlib.tlc(SPEC_DIR, "MC_Syncer", "MC_Syncer_big.cfg", c.work, timeout=3000, heap="12g")
        c.require_ok(res, "Syncer design, larger instance: two sessions, <=2 faults")
    # 2. every transition of the small instance, as an edge cover of paths from the initial states
    gen = vlib.tlc(SPEC_DIR, "MC_Syncer", "Gen_Syncer.cfg", c.work, workers=1, timeout=1500)
    c.require_ok(gen, "Syncer transition enumeration (Gen_Syncer.cfg)")
    trs = parse_gen(gen.out)
    if len(trs) < 5000:
        raise vlib.Infra("too few transitions generated: %d" % len(trs))
    paths, ncov, unreach = edge_cover(trs, rng)
    if unreach:
        raise vlib.Infra("%d transitions not reachable from an initial state in the generated graph" % len(unreach))
    bs = behaviours_from_graph(trs, paths)
    run_harness(c, cfg_params("Gen_Syncer.cfg"), bs, "gen")
    c.exhaustive = True
    c.extra["exhaustive_note"] = ("exhaustive over the Gen_Syncer.cfg instance: all %d transitions (self-loops included) covered by %d "
                                  "replayed paths; simulated behaviours of the larger instances are sampled" % (len(trs), len(paths)))
    # 3. simulated behaviours of larger instances (two sessions, more faults, multi-expiry excluded)
    if not c.violations:
        n = 3000 if thorough else 400
        bs2 = simulate(c, "Sim_Syncer.cfg", n, 45, "sim")
        run_harness(c, cfg_params("Sim_Syncer.cfg"), bs2, "sim")
