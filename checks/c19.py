"""C19 — canonical, binding encodings of blocks, transactions, receipts and chain ids; hardfork versions monotone and
stable across restarts.  spec/commit/Commitments.tla + Hardfork.tla; binding: TLC's enumeration of (kind, shape, mutated field),
ordered lists, stored receipt containers, chain ids and of every transition of the restart model is replayed on the real digest
writers, merkle roots, codecs and on ChainService.checkHardfork over a real ChainDB; a recorded random run of restarts is
validated by TLC (HardforkTrace.tla)."""
import json, os, random, threading, time
import vlib

LEVEL = "model_checking"
MANIFEST = dict(
    category=LEVEL, design_ref="DESIGN.md §5 C19, §7 (byte-level codec fidelity is sampled)",
    text="Commitments.tla transcribes the digest writers of the code field by field (block hash, block signing digest, tx hash, tx signing digest, "
         "receipt merkle leaf per format version and status, stored receipt format), the merkle tree with its padding rule over an injective symbolic "
         "hash, and the cell layout of the stored receipts / chain id codecs including the decoder's position arithmetic; TLC checks that every field "
         "the property names is committed, that the signing digests leave out exactly the signature, that equal roots arise only from the padding rule, "
         "that what the roots commit to is stored, and decode(encode(x)) = x for every shape.  Hardfork.tla models start-up compatibility checking, block "
         "appends and restarts with arbitrary fork-height configurations (all 81/256 configurations incl. non-monotone ones): version monotone in the "
         "height, stable across accepted restarts, receipts read in the format they were written in.  Every enumerated case (kind x shape x field x "
         "8 concrete mutation styles, every list of <=4 (quick) / <=6 (thorough) entries over 3 elements with/without block bloom, every stored container "
         "shape, every chain id over a 2-letter alphabet incl. the separator) is replayed on types/account-key; every transition of the restart model on "
         "the real ChainService.checkHardfork + ChainDB (several concretisations of the abstract heights up to 2^64-1), with real receipts written and "
         "read back across restarts; a long random run is validated by TLC against HardforkTrace.tla.",
    note="model_checking of decision tables and of the restart machine; PARTIAL per DESIGN §7: fidelity of the codecs for arbitrary byte contents and "
         "collision resistance of sha256 are outside an explicit-state model - field contents are seeded samples (labelled 'sampled' in the evidence), "
         "shapes/lengths/presence are exhaustive; the variable-length concatenation of neighbouring header/tx fields without length prefixes is a "
         "recorded observation outside the single-field property",
    technique="TLA+/TLC exhaustive model; TLC-enumerated decision tables and transitions replayed into the real code; TLC trace validation of a recorded random run")
SPEC_DIR = os.path.join(vlib.SPEC, "commit")


def plain(v):
    """parsed TLA+ value -> JSON-able python (functions with integer-like keys become dicts keyed by str)"""
    if isinstance(v, dict) and "_fun" in v:
        return {str(k): plain(x) for k, x in v["_fun"]}
    if isinstance(v, dict):
        return {k: plain(x) for k, x in v.items()}
    if isinstance(v, (list, tuple)):
        return [plain(x) for x in v]
    return v


def commit_input(trs):
    muts, lists, codec, cids = [], [], [], []
    for (s, a, d) in trs:
        n = a.get("name")
        if n == "Mutate":
            muts.append(dict(kind=s["kind"], shape=plain(s["shape"]), field=a["field"], changed=sorted(plain(d["changed"])),
                             required=sorted(plain(d["required"])), forbidden=sorted(plain(d["forbidden"])), stored=bool(d["stored"])))
        elif n == "PickList":
            lists.append(dict(list=plain(a["list"]), bloom=bool(a["bloom"]), root=d["root"]))
        elif n == "StoreReceipts":
            codec.append(dict(fmt=a["fmt"], bloom=bool(a["bloom"]), rs=plain(a["rs"]), ok=bool(d["ok"])))
        elif n == "StoreChainId":
            cids.append(dict(c=plain(a["c"]), ok=bool(d["ok"]), bytes=plain(d["bytes"])))
    return muts, lists, codec, cids


def cfg4(f):
    d = plain(f)
    return [d["2"], d["3"], d["4"], d["5"]]


def hardfork_input(trs):
    T = []
    for (s, a, d) in trs:
        e = dict(act=a["name"], up=bool(s["up"]), cfg=cfg4(s["cfg"]), db=(cfg4(s["db"]) if s["db"] != [] else None), best=s["best"])
        if a["name"] == "Start":
            e.update(c=cfg4(a["c"]), ok=bool(a["ok"]), db2=(cfg4(d["db"]) if d["db"] != [] else None))
        elif a["name"] == "AddBlock":
            e.update(no=a["no"], ver=a["ver"], fmt=a["fmt"])
        T.append(e)
    return T


def height_maps(tier, rng, hs):
    """strictly increasing maps of the abstract heights 0..max+1 to real block numbers (0 stays 0: the genesis height)"""
    n = max(hs) + 2
    maps = [list(range(n)),
            [0] + [10 ** (3 * i) for i in range(1, n)],
            [0] + sorted([2 ** 64 - 1 - 7 * (n - 1 - i) for i in range(1, n)]),     # right below the end of uint64
            [0] + [2 ** 53 + i for i in range(1, n)]]                               # beyond the exact range of a float64 (JSON numbers)
    extra = 2 if tier == "quick" else 8
    for _ in range(extra):
        maps.append([0] + sorted(rng.sample(range(1, 2 ** 63), n - 1)))
    return maps


def run(c):
    rng = random.Random(c.seed)
    thorough = c.tier == "thorough"
    c.rule = ("a case is one evaluation on the real code: (kind, shape, field, concrete mutation style, digest) of the TLC mutation table; one (list, root function); "
              "one stored container / chain id / genesis; one (transition of the restart model, height map) or one event of the random restart run; "
              "distinct = distinct such tuples")
    c.assumptions = ["digests are modelled symbolically: sha256 is collision resistant, a digest is injective in the byte string it is computed from",
                     "field CONTENTS are seeded samples (8 mutation styles per field: bit flips at first/last/random position, appended/prepended zero byte, "
                     "truncation, clearing, setting an empty field); field presence, lengths 0/1, formats, statuses, event counts are exhaustive",
                     "addresses start with 0x02/0x03 (keys), 0x0C (contracts) or 0x80 (padded names), never with 0x00, and are 33 bytes long",
                     "the events of a receipt carry the receipt's transaction hash (restored by SetMemoryInfo on the read paths)",
                     "the hardfork record of the chain database was written by this binary (keys V2..V5)",
                     "in-memory key-value store (aergo-lib memorydb) stands for the disk store",
                     "TLC 1.8.0"]
    box = {}

    def bg(key, fn):
        def w():
            try:
                box[key] = fn()
            except Exception as e:      # noqa
                box[key + "_err"] = e
        t = threading.Thread(target=w)
        t.start()
        return t

    def need(key, th):
        th.join()
        if key + "_err" in box:
            raise box[key + "_err"]
        return box[key]

    mc1 = "MC_Commitments_big.cfg" if thorough else "MC_Commitments.cfg"
    mc2 = "MC_Hardfork_big.cfg" if thorough else "MC_Hardfork.cfg"
    g1 = "Gen_Commitments_big.cfg" if thorough else "Gen_Commitments.cfg"

    def gen_commit():
        g = vlib.tlc(SPEC_DIR, "MC_Commitments", g1, os.path.join(c.work, "gen1"), workers=1, timeout=2400)
        return g, (commit_input(vlib.parse_transitions(g.out)) if g.ok else None)

    def gen_hardfork():
        g = vlib.tlc(SPEC_DIR, "MC_Hardfork", "Gen_Hardfork.cfg", os.path.join(c.work, "gen2"), workers=1, timeout=2400)
        return g, (hardfork_input(vlib.parse_transitions(g.out)) if g.ok else None)

    t_g1 = bg("gen1", gen_commit)
    t_g2 = bg("gen2", gen_hardfork)
    t_m1 = bg("mc1", lambda: vlib.tlc(SPEC_DIR, "MC_Commitments", mc1, os.path.join(c.work, "mc1"), workers=3, timeout=2400))
    t_m2 = bg("mc2", lambda: vlib.tlc(SPEC_DIR, "MC_Hardfork", mc2, os.path.join(c.work, "mc2"), workers=3, timeout=2400))
    threads = [t_g1, t_g2, t_m1, t_m2]
    try:
        # ---- 1. commitments: the enumerated cases on package types and account/key
        gen1, parsed = need("gen1", t_g1)
        c.require_ok(gen1, "enumeration of the commitment cases with the model's predictions (%s)" % g1)
        muts, lists, codec, cids = parsed
        if len(muts) < 1500 or len(lists) < 200 or len(codec) < 3000 or len(cids) < 500:
            raise vlib.Infra("case enumeration incomplete: %d mutations, %d lists, %d containers, %d chain ids" % (len(muts), len(lists), len(codec), len(cids)))
        inp = dict(mutations=muts, lists=lists, codec=codec, cids=cids,
                   reps=4 if thorough else 1, long_lists=2000 if thorough else 200, genesis=2000 if thorough else 200)
        inpath = os.path.join(c.work, "commit_in.json")
        json.dump(inp, open(inpath, "w"))
        outpath = os.path.join(c.work, "commit_out.json")
        t0 = time.time()
        rc, output = vlib.go_test("./types/", "^TestVerifCommit$", env={"VERIF_IN": inpath, "VERIF_OUT": outpath, "VERIF_SEED": c.seed, "VERIF_TIER": c.tier}, timeout=2400)
        r1 = c.absorb_go(outpath, output)
        c.notes.append("types harness wall %.1fs" % (time.time() - t0))
        if rc != 0 and not r1.get("violations"):
            raise vlib.Infra("types harness failed:\n" + output[-3000:])

        txin = os.path.join(c.work, "tx_in.json")
        json.dump(dict(mutations=[m for m in muts if m["kind"] == "tx"], reps=6 if thorough else 2), open(txin, "w"))
        txout = os.path.join(c.work, "tx_out.json")
        t0 = time.time()
        rc, output = vlib.go_test("./account/key/", "^TestVerifTxSign$", env={"VERIF_IN": txin, "VERIF_OUT": txout, "VERIF_SEED": c.seed, "VERIF_TIER": c.tier}, timeout=1200)
        r2 = c.absorb_go(txout, output)
        c.notes.append("account/key harness wall %.1fs" % (time.time() - t0))
        if rc != 0 and not r2.get("violations"):
            raise vlib.Infra("account/key harness failed:\n" + output[-3000:])

        # ---- 2. hardfork: every transition of the restart model on the real start-up check and chain database
        gen2, T = need("gen2", t_g2)
        c.require_ok(gen2, "every transition of the restart model (Gen_Hardfork)")
        nstart = sum(1 for e in T if e["act"] == "Start")
        if nstart < 20000 or not any(e["act"] == "AddBlock" for e in T):
            raise vlib.Infra("restart transitions incomplete: %d Start" % nstart)
        hin = os.path.join(c.work, "hardfork_in.json")
        json.dump(dict(trans=T, heights=[0, 2, 3], maps=[[str(x) for x in m] for m in height_maps(c.tier, rng, [0, 2, 3])],
                       runs=60 if thorough else 12, run_len=120 if thorough else 60), open(hin, "w"))
        hout = os.path.join(c.work, "hardfork_out.json")
        tracepath = os.path.join(c.work, "hardfork_trace.ndjson")
        t0 = time.time()
        rc, output = vlib.go_test("./chain/", "^TestVerifHardfork$", env={"VERIF_IN": hin, "VERIF_OUT": hout, "VERIF_TRACE": tracepath,
                                                                          "VERIF_SEED": c.seed, "VERIF_TIER": c.tier}, timeout=2400)
        r3 = c.absorb_go(hout, output)
        c.notes.append("chain harness wall %.1fs" % (time.time() - t0))
        if rc != 0 and not r3.get("violations"):
            raise vlib.Infra("chain harness failed:\n" + output[-3000:])

        # ---- 3. the design-level runs
        c.require_ok(need("mc1", t_m1), "Commitments design: required fields committed, signing digests, padding-only root collisions, storage covers commitment, round trips (%s)" % mc1)
        c.require_ok(need("mc2", t_m2), "Hardfork design: version monotone, stable across accepted restarts, receipt format stable (%s)" % mc2)
        c.exhaustive = True
        c.extra["exhaustive_note"] = ("exhaustive over the abstract models: %d (kind, shape, field) mutations, %d lists, %d stored containers, %d chain ids, "
                                      "%d restart transitions x %d height maps; SAMPLED: field contents, long lists (%d), genesis records (%d), the random restart run"
                                      % (len(muts), len(lists), len(codec), len(cids), len(T), len(height_maps(c.tier, random.Random(0), [0, 2, 3])),
                                         inp["long_lists"], inp["genesis"]))
        c.extra["sampled"] = ["byte contents of every field", "lists longer than the model bound", "genesis records", "random restart run"]

        # ---- 4. direction B: the recorded random run of restarts validated by TLC against HardforkTrace.tla
        lines = [l for l in open(tracepath) if l.strip()] if os.path.exists(tracepath) else []
        if len(lines) < 200:
            raise vlib.Infra("random restart run too short: %d events" % len(lines))
        ok, matched, total, tres = vlib.validate_trace(SPEC_DIR, "HardforkTrace", "HardforkTrace.cfg", c.work, tracepath, timeout=1500)
        c.add_tlc(tres, "trace validation of the recorded restart run (HardforkTrace)")
        if not ok:
            ev = lines[matched] if matched < len(lines) else ""
            sig = {"kind": "trace-rejected"}
            try:
                sig["event"] = json.loads(ev).get("ev")
            except Exception:
                pass
            c.violation(sig, {"event_index": matched, "event": ev, "context": lines[max(0, matched - 6):matched]},
                        "HardforkTrace rejects the recorded execution at event %d of %d: %s" % (matched, total, ev[:300]))
        else:
            c.traces_validated = sum(1 for l in lines if '"Reset"' in l) + 1
            # binding self-test: a run with one altered observation must be rejected
            idx = [i for i, l in enumerate(lines) if '"AddBlock"' in l or '"Start"' in l]
            i = idx[rng.randrange(len(idx))]
            e = json.loads(lines[i])
            if e["ev"] == "Start":
                e["ok"] = not e["ok"]
            else:
                e["ver"] = e["ver"] + 1
            bad = os.path.join(c.work, "hardfork_trace_bad.ndjson")
            open(bad, "w").writelines(lines[:i] + [json.dumps(e) + "\n"] + lines[i + 1:])
            ok2, m2, _t2, _ = vlib.validate_trace(SPEC_DIR, "HardforkTrace", "HardforkTrace.cfg", os.path.join(c.work, "tv2"), bad, timeout=1500)
            if ok2:
                raise vlib.Infra("binding self-test failed: corrupted restart trace accepted")
            c.notes.append("self-test: corrupted trace rejected at event %d (altered event %d)" % (m2, i))
    finally:
        for t in threads:
            t.join()
