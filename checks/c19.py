"""C19 — canonical, binding encodings of blocks, transactions, receipts and chain ids; hardfork versions monotone and
stable across restarts.  spec/commit/Commitments.tla + Hardfork.tla; binding: TLC's enumeration of (kind, shape, mutated field),
ordered lists, stored receipt containers, chain ids and of every transition of the restart model is replayed on the real digest
writers, merkle roots, codecs and on ChainService.checkHardfork over a real ChainDB; a recorded random run of restarts is
validated by TLC (HardforkTrace.tla)."""
import json, os, random, threading, time
import vlib

LEVEL = "model_checking"
MANIFEST = dict(
    category=LEVEL, design_ref="DESIGN.md §5 C19, §7 (byte-level codec fidelity is sampled)",
    text="Commitments.tla transcribes the digest writers of the code field by field (block hash, block signing digest, tx hash, tx signing digest, "
         "receipt merkle leaf per format version and status, stored receipt format), the merkle tree with its padding rule over an injective symbolic "
         "hash, and the cell layout of the stored receipts / chain id codecs including the decoder's position arithmetic; TLC checks that every field "
         "the property names is committed, that the signing digests leave out exactly the signature, that equal roots arise only from the padding rule, "
         "that what the roots commit to is stored, and decode(encode(x)) = x for every shape.  Hardfork.tla models start-up compatibility checking, block "
         "appends and restarts with arbitrary fork-height configurations (all 81/256 configurations incl. non-monotone ones): version monotone in the "
         "height, stable across accepted restarts, receipts read in the format they were written in.  Every enumerated case (kind x shape x field x "
         "8 concrete mutation styles, every list of <=4 (quick) / <=6 (thorough) entries over 3 elements with/without block bloom, every stored container "
         "shape, every chain id over a 2-letter alphabet incl. the separator) is replayed on types/account-key; every transition of the restart model on "
         "the real ChainService.checkHardfork + ChainDB (several concretisations of the abstract heights up to 2^64-1), with real receipts written and "
         "read back across restarts; a long random run is validated by TLC against HardforkTrace.tla; body variants that share a genuine block's identifier "
         "(merkle padding) are delivered to a second real node before the genuine block.",
    note="model_checking of decision tables and of the restart machine; PARTIAL per DESIGN §7: fidelity of the codecs for arbitrary byte contents and "
         "collision resistance of sha256 are outside an explicit-state model - field contents are seeded samples (labelled 'sampled' in the evidence), "
         "shapes/lengths/presence are exhaustive; the variable-length concatenation of neighbouring header/tx fields without length prefixes is a "
         "recorded observation outside the single-field property",
    technique="TLA+/TLC exhaustive model; TLC-enumerated decision tables and transitions replayed into the real code; TLC trace validation of a recorded random run")
SPEC_DIR = os.path.join(vlib.SPEC, "commit")


def plain(v):
    """parsed TLA+ value -> JSON-able python (functions with integer-like keys become dicts keyed by str)"""
    if isinstance(v, dict) and "_fun" in v:
        return {str(k): plain(x) for k, x in v["_fun"]}
    if isinstance(v, dict):
        return {k: plain(x) for k, x in v.items()}
    if isinstance(v, (list, tuple)):
        return [plain(x) for x in v]
    return v


def commit_input(trs):
    muts, lists, codec, cids = [], [], [], []
    for (s, a, d) in trs:
        n = a.get("name")
        if n == "Mutate":
            muts.append(dict(kind=s["kind"], shape=plain(s["shape"]), field=a["field"], changed=sorted(plain(d["changed"])),
                             required=sorted(plain(d["required"])), forbidden=sorted(plain(d["forbidden"])), stored=bool(d["stored"])))
        elif n == "PickList":
            lists.append(dict(list=plain(a["list"]), bloom=bool(a["bloom"]), root=d["root"]))
        elif n == "StoreReceipts":
            codec.append(dict(fmt=a["fmt"], bloom=bool(a["bloom"]), rs=plain(a["rs"]), ok=bool(d["ok"])))
        elif n == "StoreChainId":
            cids.append(dict(c=plain(a["c"]), stored=bool(d["stored"]), ok=bool(d["ok"]), bytes=plain(d["bytes"])))
    return muts, lists, codec, cids


def cfg4(f):
    d = plain(f)
    return [d["2"], d["3"], d["4"], d["5"]]


def hardfork_input(trs):
    T = []
    for (s, a, d) in trs:
        e = dict(act=a["name"], up=bool(s["up"]), cfg=cfg4(s["cfg"]), db=(cfg4(s["db"]) if s["db"] != [] else None), best=s["best"])
        if a["name"] == "Start":
            e.update(c=cfg4(a["c"]), ok=bool(a["ok"]), db2=(cfg4(d["db"]) if d["db"] != [] else None))
        elif a["name"] == "AddBlock":
            e.update(no=a["no"], ver=a["ver"], fmt=a["fmt"])
        T.append(e)
    return T


def height_maps(tier, rng, hs):
    """strictly increasing maps of the abstract heights 0..max+1 to real block numbers (0 stays 0: the genesis height)"""
    n = max(hs) + 2
    maps = [list(range(n)),
            [0] + [10 ** (3 * i) for i in range(1, n)],
            [0] + sorted([2 ** 64 - 1 - 7 * (n - 1 - i) for i in range(1, n)]),     # right below the end of uint64
            [0] + [2 ** 53 + i for i in range(1, n)]]                               # beyond the exact range of a float64 (JSON numbers)
    extra = 1 if tier == "quick" else 8
    for _ in range(extra):
        maps.append([0] + sorted(rng.sample(range(1, 2 ** 63), n - 1)))
    return maps


def run(c):
    rng = random.Random(c.seed)
    thorough = c.tier == "thorough"
    c.rule = ("a case is one evaluation on the real code: (kind, shape, field, concrete mutation style, digest) of the TLC mutation table; one (list, root function); "
              "one stored container / chain id / genesis; one (transition of the restart model, height map) or one event of the random restart run; "
              "distinct = distinct such tuples")
    c.assumptions = ["digests are modelled symbolically: sha256 is collision resistant, a digest is injective in the byte string it is computed from",
                     "field CONTENTS are seeded samples (8 mutation styles per field: bit flips at first/last/random position, appended/prepended zero byte, "
                     "truncation, clearing, setting an empty field); field presence, lengths 0/1, formats, statuses, event counts are exhaustive",
                     "addresses start with 0x02/0x03 (keys), 0x0C (contracts) or 0x80 (padded names), never with 0x00, and are 33 bytes long",
                     "the events of a receipt carry the receipt's transaction hash (restored by SetMemoryInfo on the read paths)",
                     "the hardfork record of the chain database was written by this binary (keys V2..V5)",
                     "in-memory key-value store (aergo-lib memorydb) stands for the disk store",
                     "TLC 1.8.0"]
    box = {}
    threads = []

    def bg(key, fn):
        def w():
            try:
                box[key] = fn()
            except Exception as e:      # noqa
                box[key + "_err"] = e
        t = threading.Thread(target=w)
        t.start()
        return t

    def need(key, th):
        th.join()
        if key + "_err" in box:
            raise box[key + "_err"]
        return box[key]

    mc1 = "MC_Commitments_big.cfg" if thorough else "MC_Commitments.cfg"
    mc2 = "MC_Hardfork_big.cfg" if thorough else "MC_Hardfork.cfg"
    g1 = "Gen_Commitments_big.cfg" if thorough else "Gen_Commitments.cfg"

    JOPTS = ["-XX:ParallelGCThreads=2"]      # small models: do not let every JVM start one GC thread per core

    def gen_commit():
        g = vlib.tlc(SPEC_DIR, "MC_Commitments", g1, os.path.join(c.work, "gen1"), workers=1, timeout=2400, heap="2g", java_opts=JOPTS)
        return g, (commit_input(vlib.parse_transitions(g.out)) if g.ok else None)

    def gen_hardfork():
        g = vlib.tlc(SPEC_DIR, "MC_Hardfork", "Gen_Hardfork.cfg", os.path.join(c.work, "gen2"), workers=1, timeout=2400, heap="2g", java_opts=JOPTS)
        return g, (hardfork_input(vlib.parse_transitions(g.out)) if g.ok else None)

    def go(pkg, run, env, timeout):
        o = env["VERIF_OUT"]
        t0 = time.time()
        cwd = os.path.join(c.work, "cwd-" + os.path.basename(o))       # own scratch dir: the harnesses run concurrently
        os.makedirs(cwd, exist_ok=True)
        rc, output = vlib.go_test(pkg, run, env=dict(env, VERIF_SEED=c.seed, VERIF_TIER=c.tier), timeout=timeout, cwd=cwd)
        return rc, output, o, time.time() - t0

    def commit_side():
        """enumeration of the commitment cases -> package types and account/key"""
        gen1, parsed = gen_commit()
        if not gen1.ok:
            return gen1, None, []
        muts, lists, codec, cids = parsed
        inp = dict(mutations=muts, lists=lists, codec=codec, cids=cids,
                   reps=3 if thorough else 1, long_lists=2000 if thorough else 200, genesis=2000 if thorough else 200)
        inpath = os.path.join(c.work, "commit_in.json")
        json.dump(inp, open(inpath, "w"))
        txin = os.path.join(c.work, "tx_in.json")
        json.dump(dict(mutations=[m for m in muts if m["kind"] == "tx"], reps=6 if thorough else 2), open(txin, "w"))
        t_key = bg("key", lambda: go("./account/key/", "^TestVerifTxSign$", {"VERIF_IN": txin, "VERIF_OUT": os.path.join(c.work, "tx_out.json")}, 1200))
        threads.append(t_key)
        runs = [("types", go("./types/", "^TestVerifCommit$", {"VERIF_IN": inpath, "VERIF_OUT": os.path.join(c.work, "commit_out.json")}, 2400))]
        runs.append(("account/key", need("key", t_key)))
        return gen1, (parsed, inp), runs

    tracepath = os.path.join(c.work, "hardfork_trace.ndjson")
    nmaps = len(height_maps(c.tier, random.Random(0), [0, 2, 3]))

    def node_side():
        """block bodies that share the identifier of a genuine block, delivered to a real node (needs no TLC input)"""
        return [("internal/verifnode", go("./internal/verifnode/", "^TestVerifC19BodyId$", {"VERIF_OUT": os.path.join(c.work, "bodyid_out.json")}, 1500))]

    def hardfork_side():
        """every transition of the restart model -> package chain (real start-up check, ChainDB, receipts)"""
        gen2, T = gen_hardfork()
        if not gen2.ok:
            return gen2, None, []
        hin = os.path.join(c.work, "hardfork_in.json")
        json.dump(dict(trans=T, heights=[0, 2, 3], maps=[[str(x) for x in m] for m in height_maps(c.tier, rng, [0, 2, 3])],
                       runs=40 if thorough else 10, run_len=100 if thorough else 50), open(hin, "w"))
        runs = [("chain", go("./chain/", "^TestVerifHardfork$", {"VERIF_IN": hin, "VERIF_OUT": os.path.join(c.work, "hardfork_out.json"),
                                                                 "VERIF_TRACE": tracepath}, 2400))]
        return gen2, T, runs

    t_n = bg("node", node_side)
    t_a = bg("commit", commit_side)
    t_b = bg("hardfork", hardfork_side)
    # the design-level runs do not feed anything: they follow one another on a third thread
    def design():
        m1 = vlib.tlc(SPEC_DIR, "MC_Commitments", mc1, os.path.join(c.work, "mc1"), workers=2, timeout=2400, heap="3g", java_opts=JOPTS)
        m2 = vlib.tlc(SPEC_DIR, "MC_Hardfork", mc2, os.path.join(c.work, "mc2"), workers=2, timeout=2400, heap="3g", java_opts=JOPTS)
        return m1, m2
    t_m = bg("mc", design)
    threads += [t_n, t_a, t_b, t_m]

    def absorb(runs):
        for name, (rc, output, o, wall) in runs:
            r = c.absorb_go(o, output)
            c.notes.append("%s harness wall %.1fs (build included)" % (name, wall))
            if "VERIF-ABORT" in output:
                raise vlib.Infra("%s harness aborted:\n%s" % (name, output[-1500:]))
            if rc != 0 and not r.get("violations"):
                raise vlib.Infra("%s harness failed:\n%s" % (name, output[-3000:]))

    try:
        # ---- 1. commitments: the enumerated cases on package types and account/key
        gen1, parsed, runs1 = need("commit", t_a)
        c.require_ok(gen1, "enumeration of the commitment cases with the model's predictions (%s)" % g1)
        (muts, lists, codec, cids), inp = parsed
        if len(muts) < 1500 or len(lists) < 200 or len(codec) < 3000 or len(cids) < 500:
            raise vlib.Infra("case enumeration incomplete: %d mutations, %d lists, %d containers, %d chain ids" % (len(muts), len(lists), len(codec), len(cids)))
        absorb(runs1)

        # ---- 2. hardfork: every transition of the restart model on the real start-up check and chain database
        gen2, T, runs2 = need("hardfork", t_b)
        c.require_ok(gen2, "every transition of the restart model (Gen_Hardfork)")
        nstart = sum(1 for e in T if e["act"] == "Start")
        if nstart < 20000 or not any(e["act"] == "AddBlock" for e in T):
            raise vlib.Infra("restart transitions incomplete: %d Start" % nstart)
        absorb(runs2)

        # ---- 2b. what a real node does with a body that shares the genuine block's identifier
        absorb(need("node", t_n))

        # ---- 3. the design-level runs
        m1, m2 = need("mc", t_m)
        c.require_ok(m1, "Commitments design: required fields committed, signing digests, padding-only root collisions, storage covers commitment, round trips (%s)" % mc1)
        c.require_ok(m2, "Hardfork design: version monotone, stable across accepted restarts, receipt format stable (%s)" % mc2)
        c.exhaustive = True
        c.extra["exhaustive_note"] = ("exhaustive over the abstract models: %d (kind, shape, field) mutations, %d lists, %d stored containers, %d chain ids, "
                                      "%d restart transitions x %d height maps; SAMPLED: field contents, long lists (%d), genesis records (%d), the random restart run"
                                      % (len(muts), len(lists), len(codec), len(cids), len(T), nmaps, inp["long_lists"], inp["genesis"]))
        c.extra["sampled"] = ["byte contents of every field", "lists longer than the model bound", "genesis records", "random restart run"]

        # ---- 4. direction B: the recorded random run of restarts validated by TLC against HardforkTrace.tla
        lines = [l for l in open(tracepath) if l.strip()] if os.path.exists(tracepath) else []
        if len(lines) < 150:
            if c.violations or c.known_hits:      # a harness that found violations may have stopped early: the verdict stands without the trace
                c.notes.append("random restart run too short for trace validation: %d events" % len(lines))
                return
            raise vlib.Infra("random restart run too short: %d events" % len(lines))
        # diagnostic configuration first (it implies the verdict configuration): every start decision, version and format as in Hardfork.tla
        ok, matched, total, tres = vlib.validate_trace(SPEC_DIR, "HardforkTrace", "HardforkTrace_strict.cfg", c.work, tracepath, timeout=1500)
        c.add_tlc(tres, "trace validation of the recorded restart run (HardforkTrace, decisions as in the model)")
        if not ok:
            # verdict configuration: decisions/versions are read from the log, only the properties are evaluated
            ok_v, m_v, total, tres_v = vlib.validate_trace(SPEC_DIR, "HardforkTrace", "HardforkTrace.cfg", os.path.join(c.work, "tvv"), tracepath, timeout=1500)
            c.add_tlc(tres_v, "trace validation of the recorded restart run (HardforkTrace, property only)")
            ev = lines[matched] if matched < len(lines) else ""
            if ok_v:
                c.notes.append("DIVERGENCE module=Hardfork step=%d: the code decides differently from Hardfork.tla (%s) but the recorded run has the property" % (matched, ev.strip()[:200]))
                c.traces_validated = sum(1 for l in lines if '"Reset"' in l) + 1
            else:
                ev = lines[m_v] if m_v < len(lines) else ""
                sig = {"kind": "trace-rejected"}
                try:
                    sig["event"] = json.loads(ev).get("ev")
                except Exception:
                    pass
                c.violation(sig, {"event_index": m_v, "event": ev, "context": lines[max(0, m_v - 8):m_v]},
                            "HardforkTrace rejects the recorded execution at event %d of %d (a block changed its version / receipts across a restart, the parent block held in memory was changed by deriving its child, "
                            "or the versions along the chain decrease): %s" % (m_v, total, ev[:300]))
        else:
            c.traces_validated = sum(1 for l in lines if '"Reset"' in l) + 1
            # binding self-test: a run with one altered observation must be rejected
            idx = [i for i, l in enumerate(lines) if '"Read"' in l] or [i for i, l in enumerate(lines) if '"AddBlock"' in l]
            i = idx[rng.randrange(len(idx))]
            e = json.loads(lines[i])
            e["ver"] = e["ver"] + 1
            bad = os.path.join(c.work, "hardfork_trace_bad.ndjson")
            open(bad, "w").writelines(lines[:i] + [json.dumps(e) + "\n"] + lines[i + 1:])
            ok2, m2, _t2, _ = vlib.validate_trace(SPEC_DIR, "HardforkTrace", "HardforkTrace.cfg", os.path.join(c.work, "tv2"), bad, timeout=1500)
            if ok2:
                raise vlib.Infra("binding self-test failed: corrupted restart trace accepted")
            c.notes.append("self-test: corrupted trace rejected at event %d (altered event %d)" % (m2, i))
    finally:
        for t in threads:
            t.join()
