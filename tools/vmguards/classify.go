package main

// Classification tables.  Everything that is not listed here and has no body in the parsed
// files is "unknown" (=> the check gives no verdict until the table is updated).

// packages whose functions neither read nor write chain state relevant for C20
var purePkgs = map[string]bool{
	"C": true, "fmt": true, "strings": true, "big": true, "strconv": true, "bytes": true, "errors": true,
	"sha256": true, "hex": true, "base58": true, "types": true, "common": true, "util": true, "dbkey": true,
	"blacklist": true, "btcec": true, "ecdsa": true, "log": true, "os": true, "time": true, "sort": true,
	"reflect": true, "json": true, "jsoniter": true, "rand": true, "unsafe": true, "context": true,
	"fee": true, "luac": true, "sync": true, "math": true, "name": true, "runtime": true, "binary": true,
	"sha3": true, "rlp": true, "atomic": true, "filepath": true, "io": true, "ioutil": true,
}

// packages of the governance contracts: they read (and write) contract storage.  Calls into them that the model drops as
// read-only (purePkgs / "pure" in pkgFuncs) are recorded in vmguards.json like the state getters (see pureMethods).
var govPkgs = map[string]bool{"name": true, "system": true, "enterprise": true}

// package-qualified functions of state-carrying packages
var pkgFuncs = map[string]string{
	"state.SendBalance":                "mut:balance",
	"state.CreateAccountState":         "mut:account",
	"state.GetAccountState":            "pure",
	"state.InitAccountState":           "pure",
	"state.NewBlockState":              "pure",
	"statedb.OpenContractState":        "pure",
	"statedb.OpenContractStateAccount": "pure",
	"statedb.GetMultiCallState":        "pure",
	"statedb.GetSystemAccountState":    "pure",
	"statedb.GetNameAccountState":      "pure",
	"statedb.StageContractState":       "mut:stage",
	"system.ExecuteSystemTx":           "mut:governance",
	"system.GetStaking":                "pure",
}

// methods (by name, receiver type not needed): forward mutations
var mutMethods = map[string]string{
	"SetData": "storage", "DeleteData": "storage", "SetRawKV": "storage",
	"SetCode": "code", "SetNonce": "nonce",
	"AddBalance": "balance", "SubBalance": "balance", "SetBalance": "balance",
	"PutState": "account", "SetStorageRoot": "storage", "SetCodeHash": "code",
	"Commit": "stage", "Update": "stage", "Exec": "sqlwrite", "exec": "sqlwrite",
}

// methods restoring an earlier snapshot (identity when nothing was written since the snapshot)
var restoreMethods = map[string]string{
	"revertState": "recovery", "Rollback": "storage", "RemoveCache": "cache",
	"rollbackToSavepoint": "sql", "rollbackToSubSavepoint": "sql", "rollback": "sql",
}

// read-only / bookkeeping methods of foreign types.  The state / statedb getters among them are not taken on trust:
// every call the extractor drops because of this table is written to vmguards.json (pure_calls), checks/c20.py requires an
// entry of READ_BINDING for each getter of packages state / statedb, and harness/state/verif_pure_test.go runs it on the
// real code (a new getter without an entry there = no verdict).
var pureMethods = map[string]bool{
	// state / statedb getters
	"GetData": true, "Balance": true, "Nonce": true, "CodeHash": true, "GetCode": true, "GetSourceCode": true,
	"State": true, "ID": true, "AccountID": true, "RP": true, "IsMultiCall": true, "GetBalanceBigInt": true,
	"GetAmountBigInt": true, "Snapshot": true, "GetCodeHash": true, "GetAccountID": true, "GetID": true,
	"GetAccountState": true, "GetAccountAndProof": true, "GetVarAndProof": true, "GetState": true,
	"GetStorageRoot": true, "GetValue": true, "GetBestBlock": true, "GetBlockByNo": true, "GetHeader": true,
	"GetBlockNo": true, "GetBlocksRootHash": true, "GetABI": true, "AddABI": true, "AddCode": true,
	"SetMultiCallCode": true, "IsDeploy": true, "GetBalance": true, "GetNonce": true, "IsNew": true,
	"IsContract": true, "SqlRecoveryPoint": true,
	// big.Int, strings, misc values
	"Cmp": true, "Sign": true, "String": true, "Bytes": true, "SetString": true, "Uint64": true, "Int64": true,
	"Add": true, "Sub": true, "Mul": true, "SetBytes": true, "Error": true, "Len": true, "ByteCode": true,
	"ABI": true, "Intn": true, "Float64": true, "Name": true, "Cmd": true, "IsEqual": true, "Verify": true,
	"SerializeUncompressed": true, "SerializeCompressed": true, "Write": true, "Sum": true, "WriteString": true,
	"Close": true, "Decode": true, "UseNumber": true, "DisallowUnknownFields": true, "Unmarshal": true,
	"MarshalJSON": true, "Microseconds": true, "Done": true, "Lock": true, "Unlock": true, "IsValidFormat": true,
	"Code": true, "Args": true, "Stat": true, "Printf": true, "ReadByte": true, "Next": true, "Fatal": true,
	// zerolog chains
	"Info": true, "Warn": true, "Debug": true, "Trace": true, "Str": true, "Msg": true, "Err": true,
	"Int": true, "Int32": true, "Uint64s": true, "AnErr": true, "Stringer": true, "IsDebugEnabled": true,
	"Msgf": true,
	// sql transaction control (no data)
	"getHandle": true, "savepoint": true, "subSavepoint": true, "release": true, "subRelease": true,
	"begin": true, "close": true,
}

// builtins and conversions
var builtinFuncs = map[string]bool{
	"len": true, "cap": true, "append": true, "make": true, "new": true, "copy": true, "delete": true,
	"panic": true, "string": true, "int": true, "int32": true, "int64": true, "uint64": true, "uint32": true,
	"byte": true, "float64": true, "bool": true, "uint": true, "uint8": true, "rune": true, "print": true,
	"println": true, "recover": true, "min": true, "max": true, "error": true,
}

// package-local functions that are primitives of the model (never inlined)
var localPrimitives = map[string]string{
	"beginTx":          "sqlopen:rw",
	"beginReadOnly":    "sqlopen:ro",
	"newReadOnlySqlTx": "sqlopen:ro",
}

// C side: calls that never return
var cNoReturn = map[string]bool{"luaL_error": true, "luaL_throwerror": true, "lua_error": true, "luaL_typerror": true, "luaL_argerror": true}

// C helpers assumed not to fail while a contract function runs: getLuaExecContext raises an error only
// when no service is attached to the Lua state, i.e. at load time at global scope, never inside a call.
var cAssumedTotal = map[string]bool{"getLuaExecContext": true}
