// Package main — vmguards: extracts the read-only-guard model of the Aergo contract VM host API
// (C20) from the CURRENT source text, without compiling it.
//
// Output: VmGuards.tla (pure data: one control-flow graph per process) + vmguards.json.
// A process is a flat graph of abstract nodes (see Node).  Go callbacks/helpers come from
// go/parser+go/ast (gocfg.go), the C modules from a small structured C scanner (ccfg.go).
package main

import (
	"fmt"
	"sort"
	"strings"
)

// Node kinds (field K):
//
//	test     atom A (isQuery|nestedView|amt|fork|isView|tx|sro|deferred) Op C ; successors T (true) / F (false)
//	nd       nondeterministic branch T / F (conditions the model does not interpret)
//	mut      forward mutation of class A (storage, balance, code, nonce, account, event, governance, stage, sqlwrite)
//	restore  roll-back to an earlier snapshot, class A (neutral for the property, see docs/notes/C20.md)
//	flag     write of a context flag: A (isQuery|nestedView|isView) Op ("=", "+=", "=?") C
//	sqlopen  SQL handle opened, A = rw|ro
//	sqlstep  sqlite3_step on statement A (C side)
//	mkrs     a result-set object is bound to the activation's statement (C side)
//	exec     nested contract execution ((*executor).call)
//	run      the Lua body runs here (only inside executor.call / the LuaJIT view wrapper)
//	cb       C code invokes Go callback A
//	defer    registers deferred body C of this activation;  undefer removes it
//	nl       nil-ness of a tracked variable (slot C): Op "=" value S | "=?" unknown | "cp" copy of slot S;
//	         tested by  test nl (slot S) ==/!= nil  (error / refusal results of inlined helpers)
//	ctx      a vmContext value has been constructed
//	throw    Lua error raised in a C shim (unwinds to the calling Lua frame)
//	unknown  call of a function the extractor cannot classify (A = name)
//	skip     no effect (removed by simplification)
//	ret      return from the process (A = "refuse" when it is an error return of a guard, informative only)
type Node struct {
	K   string `json:"k"`
	A   string `json:"a"`
	Op  string `json:"op"`
	C   int    `json:"c"`
	T   int    `json:"t"`
	F   int    `json:"f"`
	S   int    `json:"s"` // nl nodes: value / source slot; test nl: the slot
	Src string `json:"src"`
	Txt string `json:"txt,omitempty"`
}

type Proc struct {
	Name  string  `json:"name"`
	Kind  string  `json:"kind"` // gocb | capi | chelper | entry | internal
	File  string  `json:"file"`
	Line  int     `json:"line"`
	Nodes []*Node `json:"nodes"` // 1-based in TLA+: index i <-> Nodes[i-1]
	Entry int     `json:"entry"`

	deferSeq int
	slotIDs  map[interface{}]int
}

type Unknown struct {
	Proc   string `json:"proc"`
	Callee string `json:"callee"`
	Src    string `json:"src"`
	Before bool   `json:"before_mut"` // reachable from the entry without crossing a mut node
}

type Output struct {
	Repo        string            `json:"repo"`
	Procs       []*Proc           `json:"procs"`
	GoCallbacks []string          `json:"go_callbacks"`
	CApi        []string          `json:"c_api"`
	Entries     []string          `json:"entries"`
	Unknowns    []Unknown         `json:"unknowns"`
	Unsupported []string          `json:"unsupported"`
	Facts       map[string]string `json:"facts"`
	FlagWrites  []string          `json:"flag_writes"` // every write of isQuery/nestedView found anywhere in the package
	// the trusted base, made explicit for the dynamic part of C20 (checks/c20.py, harness/state/verif_pure_test.go):
	// every call the model treats as pure because of pureMethods / a "pure" entry of pkgFuncs, with its call site
	PureCalls   []*PureCall `json:"pure_calls"`
	PureMethods []string    `json:"pure_methods"`   // the table pureMethods
	PurePkgFunc []string    `json:"pure_pkg_funcs"` // the "pure" entries of pkgFuncs
	PureGovPkgs []string    `json:"pure_gov_pkgs"`  // governance packages (govPkgs) listed in purePkgs: every function of them is dropped
}

// PureCall is one call site the extractor drops from the model as read-only.
type PureCall struct {
	Name  string   `json:"name"`           // method name, or pkg.Func
	Recv  string   `json:"recv,omitempty"` // receiver expression (text), methods only
	RT    string   `json:"rt,omitempty"`   // receiver type when the extractor knows it
	Src   string   `json:"src"`
	Procs []string `json:"procs"` // processes the call site was compiled into
}

func (p *Proc) add(n *Node) int {
	p.Nodes = append(p.Nodes, n)
	return len(p.Nodes) // 1-based
}

// simplify removes skip nodes, nd nodes with equal successors and unreachable nodes.
func (p *Proc) simplify() {
	for changed := true; changed; {
		changed = false
		// resolve chains of skips
		target := func(i int) int {
			seen := map[int]bool{}
			for i > 0 && !seen[i] {
				seen[i] = true
				n := p.Nodes[i-1]
				if n.K == "skip" {
					i = n.T
					continue
				}
				if (n.K == "nd" || (n.K == "test" && n.A != "deferred")) && n.T == n.F {
					i = n.T
					continue
				}
				break
			}
			return i
		}
		for _, n := range p.Nodes {
			if n.T > 0 {
				if t := target(n.T); t != n.T {
					n.T = t
					changed = true
				}
			}
			if n.F > 0 {
				if f := target(n.F); f != n.F {
					n.F = f
					changed = true
				}
			}
		}
		if e := target(p.Entry); e != p.Entry {
			p.Entry = e
			changed = true
		}
	}
	for round := 0; round < 4; round++ {
		p.dropDeadNil()
		p.dropEmptyDefers()
		p.collapseTails()
		p.canonNd()
		p.mergeEqual()
		p.compact()
	}
}

// dropDeadNil removes nil-ness bookkeeping that no test can observe: an assignment to slot s is dead when
// no path from it reaches a test (or copy) of s before s is assigned again.
func (p *Proc) dropDeadNil() {
	p.resolveSkips()
	uses := func(n *Node, s int) bool {
		return (n.K == "test" && n.A == "nl" && n.S == s) || (n.K == "nl" && n.Op == "cp" && n.S == s)
	}
	live := func(from, s int) bool {
		seen := map[int]bool{}
		st := []int{from}
		for len(st) > 0 {
			i := st[len(st)-1]
			st = st[:len(st)-1]
			if i <= 0 || seen[i] {
				continue
			}
			seen[i] = true
			n := p.Nodes[i-1]
			if uses(n, s) {
				return true
			}
			if n.K == "nl" && n.C == s {
				continue // redefined
			}
			st = append(st, n.T, n.F)
		}
		return false
	}
	for _, n := range p.Nodes {
		if n.K == "nl" && !live(n.T, n.C) {
			n.K = "skip"
		}
	}
	// a test of a slot that is never assigned on any path is uninterpreted
	assigned := map[int]bool{}
	for _, n := range p.Nodes {
		if n.K == "nl" {
			assigned[n.C] = true
		}
	}
	for _, n := range p.Nodes {
		if n.K == "test" && n.A == "nl" && !assigned[n.S] {
			n.K, n.A, n.Op, n.S = "nd", "", "", 0
		}
	}
	p.resolveSkips()
}

// canonNd replaces every web of nd nodes by a canonical chain over the set of non-nd nodes it can
// reach through nd nodes only (two nd nodes with the same exit set are indistinguishable).
func (p *Proc) canonNd() {
	p.resolveSkips()
	exits := map[int][]int{}
	var collect func(i int, seen map[int]bool, acc map[int]bool)
	collect = func(i int, seen map[int]bool, acc map[int]bool) {
		if i <= 0 || seen[i] {
			return
		}
		seen[i] = true
		n := p.Nodes[i-1]
		if n.K != "nd" {
			acc[i] = true
			return
		}
		collect(n.T, seen, acc)
		collect(n.F, seen, acc)
	}
	orig := len(p.Nodes)
	for i := 1; i <= orig; i++ {
		if p.Nodes[i-1].K == "nd" {
			acc := map[int]bool{}
			collect(i, map[int]bool{}, acc)
			var l []int
			for e := range acc {
				l = append(l, e)
			}
			sort.Ints(l)
			exits[i] = l
		}
	}
	memo := map[string]int{}
	var chain func(l []int) int
	chain = func(l []int) int {
		if len(l) == 0 {
			return 0
		}
		if len(l) == 1 {
			return l[0]
		}
		key := fmt.Sprint(l)
		if v, ok := memo[key]; ok {
			return v
		}
		rest := chain(l[1:])
		v := p.add(&Node{K: "nd", T: l[0], F: rest})
		memo[key] = v
		return v
	}
	redirect := func(i int) int {
		if i > 0 && i <= orig && p.Nodes[i-1].K == "nd" {
			if len(exits[i]) == 0 { // diverging nd loop: behaves like a return for the property
				return p.add(&Node{K: "ret"})
			}
			return chain(exits[i])
		}
		return i
	}
	for i := 0; i < orig; i++ {
		n := p.Nodes[i]
		if n.K == "nd" {
			continue
		}
		n.T, n.F = redirect(n.T), redirect(n.F)
	}
	p.Entry = redirect(p.Entry)
}

// collapseTails: a node from which only nd/ret nodes are reachable behaves like ret.
func (p *Proc) collapseTails() {
	memo := map[int]int{} // 1 = boring, 2 = not, 3 = in progress
	var boring func(i int) bool
	boring = func(i int) bool {
		if i <= 0 {
			return true
		}
		switch memo[i] {
		case 1, 3:
			return true
		case 2:
			return false
		}
		n := p.Nodes[i-1]
		if n.K != "nd" && n.K != "ret" && n.K != "skip" {
			memo[i] = 2
			return false
		}
		memo[i] = 3
		ok := boring(n.T) && boring(n.F)
		if ok {
			memo[i] = 1
		} else {
			memo[i] = 2
		}
		return ok
	}
	// two passes: cycles through "in progress" nodes are optimistic, so re-check until stable
	for again := true; again; {
		again = false
		for i := range p.Nodes {
			was := memo[i+1]
			delete(memo, i+1)
			b := boring(i + 1)
			if was == 1 && !b {
				again = true
			}
		}
	}
	for i, n := range p.Nodes {
		if memo[i+1] == 1 && n.K == "nd" {
			n.K, n.A, n.T, n.F = "ret", "", 0, 0
		}
	}
}

// dropEmptyDefers: a deferred body without model-relevant content needs no bookkeeping.
func (p *Proc) dropEmptyDefers() {
	for again := true; again; {
		again = false
		for _, n := range p.Nodes {
			if n.K == "test" && n.A == "deferred" && n.T > 0 {
				u := p.Nodes[n.T-1]
				if u.K == "undefer" && u.T == n.F {
					id := n.C
					for _, m := range p.Nodes {
						if (m.K == "defer" || m.K == "undefer") && m.C == id {
							m.K = "skip"
						}
					}
					n.K, n.T = "skip", n.F
					again = true
				}
			}
		}
		if again {
			p.resolveSkips()
		}
	}
}

func (p *Proc) resolveSkips() {
	target := func(i int) int {
		seen := map[int]bool{}
		for i > 0 && !seen[i] {
			seen[i] = true
			n := p.Nodes[i-1]
			if n.K == "skip" || ((n.K == "nd" || (n.K == "test" && n.A != "deferred")) && n.T == n.F) {
				i = n.T
				continue
			}
			break
		}
		return i
	}
	for changed := true; changed; {
		changed = false
		for _, n := range p.Nodes {
			if n.T > 0 {
				if t := target(n.T); t != n.T {
					n.T, changed = t, true
				}
			}
			if n.F > 0 {
				if f := target(n.F); f != n.F {
					n.F, changed = f, true
				}
			}
		}
		if e := target(p.Entry); e != p.Entry {
			p.Entry, changed = e, true
		}
	}
}

// mergeEqual identifies nodes with identical behaviour (same kind, arguments and successors).
// Nodes with an effect keep their source position (it is part of the replay), pure control nodes do not.
func (p *Proc) mergeEqual() {
	for again := true; again; {
		again = false
		sig := map[string]int{}
		repl := map[int]int{}
		for i, n := range p.Nodes {
			if n.K == "skip" {
				continue
			}
			s := fmt.Sprintf("%s|%s|%s|%d|%d|%d|%d", n.K, n.A, n.Op, n.C, n.T, n.F, n.S)
			switch n.K {
			case "nd", "ret", "skip", "defer", "undefer", "nl":
			case "test":
				if n.A != "deferred" && n.A != "nl" {
					s += "|" + n.Src
				}
			default:
				s += "|" + n.Src
			}
			if j, ok := sig[s]; ok {
				repl[i+1] = j
				again = true
			} else {
				sig[s] = i + 1
			}
		}
		if again {
			for _, n := range p.Nodes {
				if r, ok := repl[n.T]; ok {
					n.T = r
				}
				if r, ok := repl[n.F]; ok {
					n.F = r
				}
			}
			if r, ok := repl[p.Entry]; ok {
				p.Entry = r
			}
			for i := range repl {
				p.Nodes[i-1].K, p.Nodes[i-1].T, p.Nodes[i-1].F = "skip", 0, 0 // now unreachable
			}
			p.resolveSkips()
		}
	}
}

// compact removes unreachable nodes and renumbers.
func (p *Proc) compact() {
	reach := map[int]bool{}
	var st []int
	st = append(st, p.Entry)
	for len(st) > 0 {
		i := st[len(st)-1]
		st = st[:len(st)-1]
		if i <= 0 || reach[i] {
			continue
		}
		reach[i] = true
		n := p.Nodes[i-1]
		st = append(st, n.T, n.F)
	}
	var order []int
	for i := range p.Nodes {
		if reach[i+1] {
			order = append(order, i+1)
		}
	}
	sort.Ints(order)
	renum := map[int]int{}
	for k, i := range order {
		renum[i] = k + 1
	}
	var nn []*Node
	for _, i := range order {
		n := p.Nodes[i-1]
		if n.T > 0 {
			n.T = renum[n.T]
		}
		if n.F > 0 {
			n.F = renum[n.F]
		}
		nn = append(nn, n)
	}
	p.Nodes = nn
	p.Entry = renum[p.Entry]
	if len(p.Nodes) == 0 {
		p.Nodes = []*Node{{K: "ret", Src: fmt.Sprintf("%s:%d", p.File, p.Line)}}
		p.Entry = 1
	}
}

// unknownsBeforeMut lists unknown nodes reachable from the entry on a path that crosses no mut node.
func (p *Proc) unknownsBeforeMut() map[int]bool {
	res := map[int]bool{}
	seen := map[int]bool{}
	st := []int{p.Entry}
	for len(st) > 0 {
		i := st[len(st)-1]
		st = st[:len(st)-1]
		if i <= 0 || seen[i] {
			continue
		}
		seen[i] = true
		n := p.Nodes[i-1]
		if n.K == "mut" {
			continue
		}
		if n.K == "unknown" {
			res[i] = true
		}
		st = append(st, n.T, n.F)
	}
	return res
}

func tlaStr(s string) string {
	s = strings.ReplaceAll(s, "\\", "\\\\")
	s = strings.ReplaceAll(s, "\"", "\\\"")
	return "\"" + s + "\""
}
