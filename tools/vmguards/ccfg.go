package main

// The "lighter" extractor for the C modules: a tokenizer + structured statement scanner.
// It keeps only what C20 needs: which Go callbacks / sqlite steps a Lua-visible C function
// reaches, and under which luaCheckView / read-only-statement tests.

import (
	"fmt"
	"os"
	"path/filepath"
	"regexp"
	"sort"
	"strings"
)

type ctok struct {
	s    string
	line int
}

type cfunc struct {
	name   string
	file   string
	line   int
	params []ctok
	body   []ctok // without the outer braces
	api    bool
}

type cX struct {
	funcs     map[string]*cfunc
	order     []string
	goCB      map[string]bool
	checkView bool            // luaCheckView returns ctx.nestedView (fact from the Go side)
	trivial   map[string]bool // Go callbacks whose process is a single ret
	out       *Output
}

var cKeywords = map[string]bool{"if": true, "while": true, "for": true, "switch": true, "return": true, "sizeof": true,
	"do": true, "else": true, "case": true, "default": true}

func ctokenize(src string) []ctok {
	var toks []ctok
	line := 1
	i := 0
	n := len(src)
	atLineStart := true
	three := []string{"<<=", ">>=", "..."}
	two := []string{"->", "==", "!=", "<=", ">=", "&&", "||", "++", "--", "+=", "-=", "*=", "/=", "|=", "&=", "<<", ">>", "^=", "%="}
	for i < n {
		ch := src[i]
		switch {
		case ch == '\n':
			line++
			i++
			atLineStart = true
			continue
		case ch == ' ' || ch == '\t' || ch == '\r':
			i++
			continue
		case ch == '#' && atLineStart: // preprocessor line (with continuations)
			for i < n && src[i] != '\n' {
				if src[i] == '\\' && i+1 < n && src[i+1] == '\n' {
					line++
					i++
				}
				i++
			}
			continue
		case ch == '/' && i+1 < n && src[i+1] == '/':
			for i < n && src[i] != '\n' {
				i++
			}
			continue
		case ch == '/' && i+1 < n && src[i+1] == '*':
			i += 2
			for i+1 < n && !(src[i] == '*' && src[i+1] == '/') {
				if src[i] == '\n' {
					line++
				}
				i++
			}
			i += 2
			continue
		case ch == '"' || ch == '\'':
			q := ch
			j := i + 1
			for j < n && src[j] != q {
				if src[j] == '\\' {
					j++
				}
				if j < n && src[j] == '\n' {
					line++
				}
				j++
			}
			toks = append(toks, ctok{"\"str\"", line})
			i = j + 1
		case ch == '_' || (ch >= 'a' && ch <= 'z') || (ch >= 'A' && ch <= 'Z'):
			j := i
			for j < n && (src[j] == '_' || (src[j] >= 'a' && src[j] <= 'z') || (src[j] >= 'A' && src[j] <= 'Z') || (src[j] >= '0' && src[j] <= '9')) {
				j++
			}
			toks = append(toks, ctok{src[i:j], line})
			i = j
		case ch >= '0' && ch <= '9':
			j := i
			for j < n && ((src[j] >= '0' && src[j] <= '9') || src[j] == '.' || src[j] == 'x' || (src[j] >= 'a' && src[j] <= 'f') || (src[j] >= 'A' && src[j] <= 'F') || src[j] == 'L' || src[j] == 'U') {
				j++
			}
			toks = append(toks, ctok{src[i:j], line})
			i = j
		default:
			done := false
			for _, ops := range [][]string{three, two} {
				for _, op := range ops {
					if strings.HasPrefix(src[i:], op) {
						toks = append(toks, ctok{op, line})
						i += len(op)
						done = true
						break
					}
				}
				if done {
					break
				}
			}
			if !done {
				toks = append(toks, ctok{string(ch), line})
				i++
			}
		}
		atLineStart = false
	}
	return toks
}

func matchClose(t []ctok, i int) int { // t[i] is an opener; returns index of its closer (or len)
	open := t[i].s
	cl := map[string]string{"(": ")", "{": "}", "[": "]"}[open]
	d := 0
	for j := i; j < len(t); j++ {
		if t[j].s == open {
			d++
		} else if t[j].s == cl {
			d--
			if d == 0 {
				return j
			}
		}
	}
	return len(t)
}

func parseC(dir string, files []string, out *Output, goCB map[string]bool, checkView bool) *cX {
	x := &cX{funcs: map[string]*cfunc{}, goCB: goCB, checkView: checkView, out: out}
	for _, fn := range files {
		b, err := os.ReadFile(filepath.Join(dir, fn))
		if err != nil {
			continue
		}
		t := ctokenize(string(b))
		for i := 0; i < len(t); i++ {
			if t[i].s == "{" { // top-level brace
				// function definition:  name ( params ) {
				if i >= 1 && t[i-1].s == ")" {
					// find matching "(" backwards
					d, j := 0, i-1
					for ; j >= 0; j-- {
						if t[j].s == ")" {
							d++
						} else if t[j].s == "(" {
							d--
							if d == 0 {
								break
							}
						}
					}
					if j >= 1 && !cKeywords[t[j-1].s] && isIdent(t[j-1].s) {
						e := matchClose(t, i)
						f := &cfunc{name: t[j-1].s, file: fn, line: t[j-1].line, params: t[j+1 : i-1], body: t[i+1 : e]}
						ps := joinToks(f.params)
						f.api = ps == "lua_State * L" && j >= 2 && t[j-2].s == "int"
						if _, dup := x.funcs[f.name]; !dup {
							x.funcs[f.name] = f
							x.order = append(x.order, f.name)
						}
						i = e
						continue
					}
				}
				i = matchClose(t, i)
			}
		}
	}
	return x
}

func isIdent(s string) bool {
	return s != "" && (s[0] == '_' || (s[0] >= 'a' && s[0] <= 'z') || (s[0] >= 'A' && s[0] <= 'Z'))
}

func joinToks(t []ctok) string {
	var sb []string
	for _, k := range t {
		sb = append(sb, k.s)
	}
	return strings.Join(sb, " ")
}

// ------------------------------------------------------------------ building

type cCtx struct {
	x     *cX
	p     *Proc
	f     *cfunc
	exit  int
	brk   []int
	cont  []int
	stack []string
	lbl   map[string]int
}

func (c *cCtx) node(k, a, op string, cv, t, f int, at []ctok) int {
	n := &Node{K: k, A: a, Op: op, C: cv, T: t, F: f}
	if len(at) > 0 {
		n.Src = fmt.Sprintf("%s:%d", c.f.file, at[0].line)
		txt := joinToks(at)
		if len(txt) > 90 {
			txt = txt[:90] + "..."
		}
		n.Txt = txt
	}
	return c.p.add(n)
}

// stmtEnd returns the index just after the statement starting at t[i].
func stmtEnd(t []ctok, i int) int {
	if i >= len(t) {
		return len(t)
	}
	switch t[i].s {
	case "{":
		return matchClose(t, i) + 1
	case "if":
		j := matchClose(t, i+1) + 1
		j = stmtEnd(t, j)
		if j < len(t) && t[j].s == "else" {
			j = stmtEnd(t, j+1)
		}
		return j
	case "while", "for", "switch":
		j := matchClose(t, i+1) + 1
		return stmtEnd(t, j)
	case "do":
		j := stmtEnd(t, i+1) // body
		// while ( ... ) ;
		if j < len(t) && t[j].s == "while" {
			j = matchClose(t, j+1) + 1
		}
		if j < len(t) && t[j].s == ";" {
			j++
		}
		return j
	case "case", "default":
		for j := i; j < len(t); j++ {
			if t[j].s == ":" {
				return j + 1
			}
		}
		return len(t)
	}
	d := 0
	for j := i; j < len(t); j++ {
		switch t[j].s {
		case "(", "{", "[":
			d++
		case ")", "}", "]":
			d--
		case ";":
			if d == 0 {
				return j + 1
			}
		}
	}
	return len(t)
}

func splitStmts(t []ctok) [][]ctok {
	var res [][]ctok
	for i := 0; i < len(t); {
		j := stmtEnd(t, i)
		if j <= i {
			j = i + 1
		}
		res = append(res, t[i:j])
		i = j
	}
	return res
}

func (c *cCtx) stmts(t []ctok, next int) int {
	ss := splitStmts(t)
	for i := len(ss) - 1; i >= 0; i-- {
		next = c.stmt(ss[i], next)
	}
	return next
}

func (c *cCtx) stmt(t []ctok, next int) int {
	if len(t) == 0 {
		return next
	}
	switch t[0].s {
	case "{":
		return c.stmts(t[1:matchClose(t, 0)], next)
	case "if":
		ce := matchClose(t, 1)
		cond := t[2:ce]
		thEnd := stmtEnd(t, ce+1)
		th := c.stmt(t[ce+1:thEnd], next)
		el := next
		if thEnd < len(t) && t[thEnd].s == "else" {
			el = c.stmt(t[thEnd+1:], next)
		}
		return c.cond(cond, th, el)
	case "while":
		ce := matchClose(t, 1)
		head := c.node("skip", "", "", 0, 0, 0, t[:1])
		c.brk, c.cont = append(c.brk, next), append(c.cont, head)
		body := c.stmt(t[ce+1:], head)
		c.brk, c.cont = c.brk[:len(c.brk)-1], c.cont[:len(c.cont)-1]
		c.p.Nodes[head-1].T = c.cond(t[2:ce], body, next)
		return head
	case "do":
		be := stmtEnd(t, 1)
		head := c.node("skip", "", "", 0, 0, 0, t[:1])
		test := c.node("skip", "", "", 0, 0, 0, t[:1])
		c.brk, c.cont = append(c.brk, next), append(c.cont, test)
		body := c.stmt(t[1:be], test)
		c.brk, c.cont = c.brk[:len(c.brk)-1], c.cont[:len(c.cont)-1]
		c.p.Nodes[head-1].T = body
		if be < len(t) && t[be].s == "while" {
			ce := matchClose(t, be+1)
			c.p.Nodes[test-1].T = c.cond(t[be+2:ce], head, next)
		} else {
			c.p.Nodes[test-1].T = next
		}
		return head
	case "for":
		ce := matchClose(t, 1)
		parts := splitTop(t[2:ce], ";")
		for len(parts) < 3 {
			parts = append(parts, nil)
		}
		head := c.node("skip", "", "", 0, 0, 0, t[:1])
		post := c.calls(parts[2], head)
		c.brk, c.cont = append(c.brk, next), append(c.cont, post)
		body := c.stmt(t[ce+1:], post)
		c.brk, c.cont = c.brk[:len(c.brk)-1], c.cont[:len(c.cont)-1]
		if len(parts[1]) > 0 {
			c.p.Nodes[head-1].T = c.cond(parts[1], body, next)
		} else {
			c.p.Nodes[head-1].T = body
		}
		return c.calls(parts[0], head)
	case "switch":
		ce := matchClose(t, 1)
		be := matchClose(t, ce+1)
		ss := splitStmts(t[ce+2 : be])
		c.brk = append(c.brk, next)
		cur := next
		var labels []int
		hasDefault := false
		for i := len(ss) - 1; i >= 0; i-- {
			if ss[i][0].s == "case" || ss[i][0].s == "default" {
				labels = append(labels, cur)
				if ss[i][0].s == "default" {
					hasDefault = true
				}
				continue
			}
			cur = c.stmt(ss[i], cur)
		}
		c.brk = c.brk[:len(c.brk)-1]
		d := next
		if hasDefault {
			d = 0
		}
		for _, l := range labels {
			if d == 0 {
				d = l
			} else {
				d = c.node("nd", "", "", 0, l, d, t[:1])
			}
		}
		return c.calls(t[2:ce], d)
	case "return":
		return c.calls(t[1:], c.exit)
	case "break":
		if len(c.brk) > 0 {
			return c.brk[len(c.brk)-1]
		}
		return next
	case "continue":
		if len(c.cont) > 0 {
			return c.cont[len(c.cont)-1]
		}
		return next
	case "case", "default", ";":
		return next
	case "goto":
		if len(t) >= 2 {
			if n, ok := c.lbl[t[1].s]; ok {
				return n
			}
		}
		c.x.out.Unsupported = append(c.x.out.Unsupported, fmt.Sprintf("%s:%d: goto", c.f.file, t[0].line))
		return next
	}
	if len(t) >= 2 && isIdent(t[0].s) && t[1].s == ":" { // label
		n := c.stmt(t[2:], next)
		if c.lbl == nil {
			c.lbl = map[string]int{}
		}
		c.lbl[t[0].s] = n
		return n
	}
	// expression statement / declaration
	n := next
	if m := rsAssign(t); m {
		n = c.node("mkrs", "", "", 0, n, 0, t)
	}
	return c.calls(t, n)
}

// rsAssign: "rs -> s = <expr>" binds a result set to a statement
func rsAssign(t []ctok) bool {
	for i := 0; i+3 < len(t); i++ {
		if t[i].s == "rs" && t[i+1].s == "->" && t[i+2].s == "s" && t[i+3].s == "=" {
			return true
		}
	}
	return false
}

func splitTop(t []ctok, sep string) [][]ctok {
	var res [][]ctok
	d, st := 0, 0
	for i, k := range t {
		switch k.s {
		case "(", "{", "[":
			d++
		case ")", "}", "]":
			d--
		}
		if d == 0 && k.s == sep {
			res = append(res, t[st:i])
			st = i + 1
		}
	}
	return append(res, t[st:])
}

func stripParens(t []ctok) []ctok {
	for len(t) >= 2 && t[0].s == "(" && matchClose(t, 0) == len(t)-1 {
		t = t[1 : len(t)-1]
	}
	return t
}

var (
	reCheckView = regexp.MustCompile(`^luaCheckView \( .* \)( (>|>=|!=|==|<|<=) (\d+))?$`)
	reReadonly  = regexp.MustCompile(`^(sqlite3_stmt_readonly|sqlcheck_is_readonly_sql) \( .* \)$`)
)

func (c *cCtx) cond(t []ctok, tt, ff int) int {
	t = stripParens(t)
	if len(t) == 0 {
		return tt
	}
	if parts := splitTop(t, "||"); len(parts) > 1 {
		cur := ff
		for i := len(parts) - 1; i >= 0; i-- {
			cur = c.cond(parts[i], tt, cur)
		}
		return cur
	}
	if parts := splitTop(t, "&&"); len(parts) > 1 {
		cur := tt
		for i := len(parts) - 1; i >= 0; i-- {
			cur = c.cond(parts[i], cur, ff)
		}
		return cur
	}
	if t[0].s == "!" {
		return c.cond(t[1:], ff, tt)
	}
	txt := joinToks(t)
	if m := reCheckView.FindStringSubmatch(txt); m != nil && c.x.checkView {
		op, cv := "!=", 0
		if m[2] != "" {
			op = m[2]
			fmt.Sscanf(m[3], "%d", &cv)
		}
		return c.node("test", "nestedView", op, cv, tt, ff, t)
	}
	if reReadonly.MatchString(txt) {
		return c.node("test", "sro", "==", 1, tt, ff, t)
	}
	n := c.node("nd", "", "", 0, tt, ff, t)
	return c.calls(t, n)
}

type ccall struct {
	name        string
	open, close int
}

func (c *cCtx) calls(t []ctok, next int) int {
	var cs []ccall
	for i := 0; i+1 < len(t); i++ {
		if isIdent(t[i].s) && !cKeywords[t[i].s] && t[i+1].s == "(" {
			if i > 0 && (t[i-1].s == "." || t[i-1].s == "->") {
				continue
			}
			cs = append(cs, ccall{t[i].s, i + 1, matchClose(t, i+1)})
		}
	}
	sort.SliceStable(cs, func(i, j int) bool { return cs[i].close < cs[j].close })
	for i := len(cs) - 1; i >= 0; i-- {
		k := cs[i]
		at := t[k.open-1 : minInt(k.close+1, len(t))]
		switch {
		case cNoReturn[k.name]:
			// a Lua error unwinds to the calling Lua frame.  For a function called directly from Lua this
			// is the same as returning; for a C shim called from another process it is a real unwind.
			if c.p.Kind == "capi" {
				next = c.node("ret", "", "", 0, 0, 0, at)
			} else {
				next = c.node("throw", "", "", 0, 0, 0, at)
			}
		case k.name == "luaCheckView" && c.x.checkView:
			// interpreted in cond(); as a plain call it has no effect
		case c.x.goCB[k.name] && c.x.trivial[k.name]:
			// the callback has no model-relevant content
		case c.x.goCB[k.name]:
			next = c.node("cb", k.name, "", 0, next, 0, at)
		case k.name == "sqlite3_step":
			arg := strings.ReplaceAll(joinToks(t[k.open+1:minInt(k.close, len(t))]), " ", "")
			next = c.node("sqlstep", arg, "", 0, next, 0, at)
		case k.name == "sqlite3_exec":
			next = c.node("sqlstep", "exec", "", 0, next, 0, at)
		case cAssumedTotal[k.name]:
			// see classify.go
		default:
			if f, ok := c.x.funcs[k.name]; ok {
				next = c.inline(f, at, next)
			}
		}
	}
	return next
}

func minInt(a, b int) int {
	if a < b {
		return a
	}
	return b
}

func (c *cCtx) inline(f *cfunc, at []ctok, next int) int {
	for _, s := range c.stack {
		if s == f.name {
			c.x.out.Unsupported = append(c.x.out.Unsupported, fmt.Sprintf("%s:%d: recursive C helper %s", c.f.file, at[0].line, f.name))
			return next
		}
	}
	if len(c.stack) > maxInline {
		return next
	}
	cc := &cCtx{x: c.x, p: c.p, f: f, exit: next, stack: append(append([]string{}, c.stack...), f.name)}
	return cc.stmts(f.body, next)
}

func (x *cX) buildProc(f *cfunc, kind string) *Proc {
	p := &Proc{Name: f.name, Kind: kind, File: f.file, Line: f.line}
	ret := p.add(&Node{K: "ret", Src: fmt.Sprintf("%s:%d", f.file, f.line)})
	c := &cCtx{x: x, p: p, f: f, exit: ret, stack: []string{f.name}}
	p.Entry = c.stmts(f.body, ret)
	p.simplify()
	return p
}
