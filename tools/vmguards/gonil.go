package main

import (
	"go/ast"
	"go/token"
	"strings"
)

// inlineTarget returns the single package-local function a call is compiled into by inlining
// (nil for primitives, nested executions, interface dispatch, foreign functions).
func (c *fnCtx) inlineTarget(call *ast.CallExpr) *funcInfo {
	switch f := call.Fun.(type) {
	case *ast.Ident:
		if _, isVar := c.env[f.Name]; isVar {
			return nil
		}
		if builtinFuncs[f.Name] || c.x.types[f.Name] {
			return nil
		}
		if _, ok := localPrimitives[f.Name]; ok {
			return nil
		}
		if fi, ok := c.x.funcs[f.Name]; ok && fi.recv == "" && fi.decl.Body != nil {
			return fi
		}
	case *ast.SelectorExpr:
		if id, ok := f.X.(*ast.Ident); ok && c.isImport(id.Name) {
			return nil
		}
		m := f.Sel.Name
		if m == "revertState" {
			return nil
		}
		rt := c.typeOf(f.X)
		if rt != "" {
			if fi, ok := c.x.funcs[rt+"."+m]; ok {
				if (rt == "executor" && m == "call") || fi.decl.Body == nil {
					return nil
				}
				return fi
			}
		}
		if _, ok := mutMethods[m]; ok {
			return nil
		}
		if _, ok := restoreMethods[m]; ok {
			return nil
		}
		if pureMethods[m] {
			return nil
		}
		if fis := c.x.byMethod[m]; len(fis) == 1 && rt == "" && fis[0].decl.Body != nil && !(fis[0].recv == "executor" && m == "call") {
			return fis[0]
		}
	}
	return nil
}

// calleeRelevant: does the helper contain anything the property talks about (guards, flags, mutations,
// nested executions)?  Only results of such helpers are worth tracking.
func (c *fnCtx) calleeRelevant(fi *funcInfo) bool {
	key := fi.decl.Name.Name
	if fi.recv != "" {
		key = fi.recv + "." + key
	}
	if c.x.relMemo == nil {
		c.x.relMemo = map[string]int{}
	}
	switch c.x.relMemo[key] {
	case 1:
		return true
	case 2, 3:
		return false
	}
	c.x.relMemo[key] = 3
	sc := &fnCtx{x: c.x, fi: fi, p: &Proc{Name: "_scratch", deferSeq: 2000}, env: map[string]string{}, amt: map[string]bool{},
		bconst: map[string]bool{}, defers: map[*ast.DeferStmt]int{}, stack: []string{key}}
	// every *big.Int parameter may be the amount
	if fi.decl.Type.Params != nil {
		for _, p := range fi.decl.Type.Params.List {
			if typeName(p.Type) == "big.Int" {
				for _, nm := range p.Names {
					sc.amt[nm.Name] = true
				}
			}
		}
	}
	sc.p.add(&Node{K: "ret"})
	savedU, savedF := c.x.out.Unsupported, c.x.out.FlagWrites
	sc.buildFunc(fi.decl.Body, fi.decl.Type, fi.decl.Recv, 1)
	c.x.out.Unsupported, c.x.out.FlagWrites = savedU, savedF
	rel := false
	for _, n := range sc.p.Nodes {
		switch n.K {
		case "mut", "flag", "ctx", "sqlopen", "exec", "run", "restore":
			rel = true
		case "test":
			switch n.A {
			case "isQuery", "nestedView", "isView", "tx", "amt":
				rel = true
			}
		}
	}
	if rel {
		c.x.relMemo[key] = 1
	} else {
		c.x.relMemo[key] = 2
	}
	return rel
}

func (c *fnCtx) nodeS(k, a, op string, cv, sv, t, f int, at ast.Node) int {
	i := c.node(k, a, op, cv, t, f, at)
	c.p.Nodes[i-1].S = sv
	return i
}

// nilNode records whether the tracked variable `slot` receives nil from expression e.
func (c *fnCtx) nilNode(slot int, e ast.Expr, at ast.Node, next int) int {
	switch t := unparen(e).(type) {
	case *ast.Ident:
		if t.Name == "nil" {
			return c.nodeS("nl", "", "=", slot, 0, next, 0, at)
		}
		if t.Obj != nil && c.slots[t.Obj] > 0 {
			if c.slots[t.Obj] == slot {
				return next
			}
			return c.nodeS("nl", "", "cp", slot, c.slots[t.Obj], next, 0, at)
		}
	case *ast.UnaryExpr:
		if t.Op == token.AND {
			return c.nodeS("nl", "", "=", slot, 1, next, 0, at)
		}
	case *ast.CompositeLit, *ast.BasicLit, *ast.FuncLit:
		return c.nodeS("nl", "", "=", slot, 1, next, 0, at)
	case *ast.CallExpr:
		name := ""
		switch f := t.Fun.(type) {
		case *ast.SelectorExpr:
			if id, ok := f.X.(*ast.Ident); ok {
				name = id.Name + "." + f.Sel.Name
			}
		case *ast.Ident:
			name = f.Name
		}
		switch {
		case name == "C.CString", name == "errors.New", name == "fmt.Errorf", name == "fmt.Sprintf",
			strings.HasPrefix(name, "new") && c.x.funcs[name] != nil && strings.HasSuffix(name, "Error"):
			return c.nodeS("nl", "", "=", slot, 1, next, 0, at)
		}
	}
	return c.nodeS("nl", "", "=?", slot, 0, next, 0, at)
}

// inlineRV inlines fi and lets its return statements set the nil-ness of the caller's variables rv.
func (c *fnCtx) inlineRV(fi *funcInfo, call *ast.CallExpr, next int, rv []int) int {
	any := false
	for _, s := range rv {
		if s > 0 {
			any = true
		}
	}
	n := 0
	if fi.decl.Type.Results != nil {
		for _, r := range fi.decl.Type.Results.List {
			if len(r.Names) == 0 {
				n++
			} else {
				n += len(r.Names)
			}
		}
	}
	if !any || n != len(rv) {
		// not trackable: the variables become unknown after the call
		e := next
		for i := len(rv) - 1; i >= 0; i-- {
			if rv[i] > 0 {
				e = c.nodeS("nl", "", "=?", rv[i], 0, e, 0, call)
			}
		}
		return c.inlineWith(fi, call, e, nil, false, 0, 0)
	}
	return c.inlineWith(fi, call, next, rv, false, 0, 0)
}

// boolHelper: a package-local function with a single bool result and no defer can be compiled as a condition.
func (c *fnCtx) boolHelper(call *ast.CallExpr) *funcInfo {
	fi := c.inlineTarget(call)
	if fi == nil || fi.decl.Type.Results == nil || len(fi.decl.Type.Results.List) != 1 {
		return nil
	}
	r := fi.decl.Type.Results.List[0]
	if len(r.Names) > 0 || typeName(r.Type) != "bool" {
		return nil
	}
	hasDefer := false
	ast.Inspect(fi.decl.Body, func(n ast.Node) bool {
		if _, ok := n.(*ast.DeferStmt); ok {
			hasDefer = true
		}
		return true
	})
	if hasDefer {
		return nil
	}
	for _, s := range c.stack {
		key := fi.decl.Name.Name
		if fi.recv != "" {
			key = fi.recv + "." + key
		}
		if s == key {
			return nil
		}
	}
	return fi
}
