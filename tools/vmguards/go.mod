module vmguards

go 1.21
