package main

import (
	"fmt"
	"go/ast"
	"go/parser"
	"go/printer"
	"go/token"
	"os"
	"path/filepath"
	"regexp"
	"sort"
	"strconv"
	"strings"
)

type funcInfo struct {
	decl *ast.FuncDecl
	file string
	recv string
}

type goX struct {
	fset     *token.FileSet
	files    map[string]*ast.File
	funcs    map[string]*funcInfo // "name" or "Type.name"
	byMethod map[string][]*funcInfo
	structs  map[string]map[string]string
	types    map[string]bool
	imports  map[string]map[string]bool
	globals  map[string]string
	exported map[string]string // name -> file
	out      *Output
	recHit   map[string]bool
	recProbe bool
	relMemo  map[string]int
}

const maxInline = 12

func (x *goX) unsupported(pos token.Pos, f string, a ...interface{}) {
	x.out.Unsupported = append(x.out.Unsupported, x.src(pos)+": "+fmt.Sprintf(f, a...))
}

func (x *goX) src(pos token.Pos) string {
	p := x.fset.Position(pos)
	return fmt.Sprintf("%s:%d", filepath.Base(p.Filename), p.Line)
}

func (x *goX) text(n ast.Node) string {
	var sb strings.Builder
	printer.Fprint(&sb, x.fset, n)
	s := strings.Join(strings.Fields(sb.String()), " ")
	if len(s) > 90 {
		s = s[:90] + "..."
	}
	return s
}

var exportRe = regexp.MustCompile(`(?m)^//export (\w+)`)

func parseGo(dir string, out *Output) (*goX, error) {
	x := &goX{fset: token.NewFileSet(), files: map[string]*ast.File{}, funcs: map[string]*funcInfo{},
		byMethod: map[string][]*funcInfo{}, structs: map[string]map[string]string{}, types: map[string]bool{},
		imports: map[string]map[string]bool{}, globals: map[string]string{}, exported: map[string]string{}, out: out}
	ents, err := os.ReadDir(dir)
	if err != nil {
		return nil, err
	}
	for _, e := range ents {
		n := e.Name()
		if !strings.HasSuffix(n, ".go") || strings.HasSuffix(n, "_test.go") || strings.HasPrefix(n, "sqlite3") || n == "callback.go" {
			continue
		}
		b, err := os.ReadFile(filepath.Join(dir, n))
		if err != nil {
			return nil, err
		}
		head := string(b)
		if i := strings.Index(head, "\npackage "); i >= 0 {
			head = head[:i]
		}
		if strings.Contains(head, "//go:build") || strings.Contains(head, "+build") {
			if !strings.Contains(head, "!Debug") { // hook.go (!Debug) is the production variant
				continue
			}
		}
		f, err := parser.ParseFile(x.fset, filepath.Join(dir, n), b, parser.ParseComments)
		if err != nil {
			return nil, fmt.Errorf("parse %s: %v", n, err)
		}
		x.files[n] = f
		imp := map[string]bool{}
		for _, is := range f.Imports {
			p, _ := strconv.Unquote(is.Path.Value)
			name := filepath.Base(p)
			if name == "v2" {
				name = filepath.Base(filepath.Dir(p))
			}
			if is.Name != nil {
				name = is.Name.Name
			}
			if p == "github.com/json-iterator/go" && is.Name == nil {
				name = "jsoniter"
			}
			imp[name] = true
		}
		x.imports[n] = imp
		for _, d := range f.Decls {
			switch d := d.(type) {
			case *ast.FuncDecl:
				fi := &funcInfo{decl: d, file: n}
				key := d.Name.Name
				if d.Recv != nil && len(d.Recv.List) > 0 {
					fi.recv = typeName(d.Recv.List[0].Type)
					key = fi.recv + "." + key
					x.byMethod[d.Name.Name] = append(x.byMethod[d.Name.Name], fi)
				}
				if _, dup := x.funcs[key]; !dup {
					x.funcs[key] = fi
				}
				if d.Doc != nil {
					for _, m := range exportRe.FindAllStringSubmatch(d.Doc.Text()+"\n"+commentRaw(d.Doc), -1) {
						if m[1] == d.Name.Name {
							x.exported[m[1]] = n
						}
					}
				}
			case *ast.GenDecl:
				for _, s := range d.Specs {
					switch s := s.(type) {
					case *ast.TypeSpec:
						x.types[s.Name.Name] = true
						if st, ok := s.Type.(*ast.StructType); ok {
							fm := map[string]string{}
							for _, fl := range st.Fields.List {
								for _, nm := range fl.Names {
									fm[nm.Name] = typeName(fl.Type)
								}
							}
							x.structs[s.Name.Name] = fm
						}
					case *ast.ValueSpec:
						if d.Tok == token.VAR && s.Type != nil {
							for _, nm := range s.Names {
								x.globals[nm.Name] = typeName(s.Type)
							}
						}
					}
				}
			}
		}
	}
	return x, nil
}

func commentRaw(cg *ast.CommentGroup) string {
	var sb strings.Builder
	for _, c := range cg.List {
		sb.WriteString(c.Text + "\n")
	}
	return sb.String()
}

// typeName renders a type expression into the small vocabulary used by typeOf.
func typeName(e ast.Expr) string {
	switch t := e.(type) {
	case *ast.Ident:
		return t.Name
	case *ast.StarExpr:
		return typeName(t.X)
	case *ast.SelectorExpr:
		return typeName(t.X) + "." + t.Sel.Name
	case *ast.ArrayType:
		return "arr:" + typeName(t.Elt)
	case *ast.MapType:
		return "map:" + typeName(t.Value)
	case *ast.Ellipsis:
		return "arr:" + typeName(t.Elt)
	case *ast.ParenExpr:
		return typeName(t.X)
	}
	return ""
}

// ------------------------------------------------------------------ per-function context

type fnCtx struct {
	x      *goX
	fi     *funcInfo
	p      *Proc
	env    map[string]string
	amt    map[string]bool
	bconst map[string]bool
	exit   int
	brk    []int
	cont   []int
	labels map[string][2]int
	defers map[*ast.DeferStmt]int
	stack  []string

	pendingLabel string
	fallT        int

	slots    map[*ast.Object]int // variables whose nil-ness is tracked (results of inlined helpers that are tested against nil)
	rv       []int               // inlined instance: slot of the caller's variable receiving result i (0 = none)
	condMode bool                // inlined as a condition: return <bool> branches to condT / condF
	condT    int
	condF    int
}

func (c *fnCtx) node(k, a, op string, cv, t, f int, at ast.Node) int {
	n := &Node{K: k, A: a, Op: op, C: cv, T: t, F: f}
	if at != nil {
		n.Src = c.x.src(at.Pos())
		n.Txt = c.x.text(at)
	}
	return c.p.add(n)
}

func (c *fnCtx) typeOf(e ast.Expr) string {
	switch t := e.(type) {
	case *ast.Ident:
		if v, ok := c.env[t.Name]; ok {
			return v
		}
		return c.x.globals[t.Name]
	case *ast.ParenExpr:
		return c.typeOf(t.X)
	case *ast.StarExpr:
		return c.typeOf(t.X)
	case *ast.UnaryExpr:
		if t.Op == token.AND {
			return c.typeOf(t.X)
		}
	case *ast.CompositeLit:
		if t.Type != nil {
			return typeName(t.Type)
		}
	case *ast.SelectorExpr:
		if fm, ok := c.x.structs[c.typeOf(t.X)]; ok {
			return fm[t.Sel.Name]
		}
	case *ast.IndexExpr:
		bt := c.typeOf(t.X)
		if strings.HasPrefix(bt, "map:") || strings.HasPrefix(bt, "arr:") {
			return bt[4:]
		}
	case *ast.CallExpr:
		if fi := c.localCallee(t); fi != nil && fi.decl.Type.Results != nil && len(fi.decl.Type.Results.List) > 0 {
			return typeName(fi.decl.Type.Results.List[0].Type)
		}
	case *ast.TypeAssertExpr:
		if t.Type != nil {
			return typeName(t.Type)
		}
	}
	return ""
}

func (c *fnCtx) isImport(name string) bool {
	if _, shadow := c.env[name]; shadow {
		return false
	}
	return c.x.imports[c.fi.file][name]
}

// localCallee resolves a call to a function/method whose body is in the parsed files.
func (c *fnCtx) localCallee(call *ast.CallExpr) *funcInfo {
	switch f := call.Fun.(type) {
	case *ast.Ident:
		if _, isVar := c.env[f.Name]; isVar {
			return nil
		}
		if fi, ok := c.x.funcs[f.Name]; ok && fi.recv == "" {
			return fi
		}
	case *ast.SelectorExpr:
		if id, ok := f.X.(*ast.Ident); ok && c.isImport(id.Name) {
			return nil
		}
		rt := c.typeOf(f.X)
		if rt != "" {
			if fi, ok := c.x.funcs[rt+"."+f.Sel.Name]; ok {
				return fi
			}
			return nil
		}
	}
	return nil
}

// prepass: flow-insensitive variable types, amount variables, defer statements.
func (c *fnCtx) prepass(body *ast.BlockStmt, ft *ast.FuncType, recv *ast.FieldList) {
	addFields := func(fl *ast.FieldList) {
		if fl == nil {
			return
		}
		for _, f := range fl.List {
			for _, n := range f.Names {
				c.env[n.Name] = typeName(f.Type)
			}
		}
	}
	addFields(recv)
	addFields(ft.Params)
	addFields(ft.Results)
	loop := 0
	var visit func(n ast.Node) bool
	visit = func(n ast.Node) bool {
		switch s := n.(type) {
		case *ast.FuncLit:
			return false
		case *ast.ForStmt:
			loop++
			if s.Init != nil {
				ast.Inspect(s.Init, visit)
			}
			ast.Inspect(s.Body, visit)
			loop--
			return false
		case *ast.RangeStmt:
			bt := c.typeOf(s.X)
			if s.Tok == token.DEFINE && (strings.HasPrefix(bt, "map:") || strings.HasPrefix(bt, "arr:")) {
				if id, ok := s.Value.(*ast.Ident); ok {
					c.env[id.Name] = bt[4:]
				}
			}
			loop++
			ast.Inspect(s.Body, visit)
			loop--
			return false
		case *ast.DeferStmt:
			if loop > 0 {
				c.x.unsupported(s.Pos(), "defer inside a loop in %s", c.fi.decl.Name.Name)
			}
			c.p.nextDefer()
			c.defers[s] = c.p.deferSeq
		case *ast.DeclStmt:
			if gd, ok := s.Decl.(*ast.GenDecl); ok {
				for _, sp := range gd.Specs {
					if vs, ok := sp.(*ast.ValueSpec); ok {
						for i, nm := range vs.Names {
							if vs.Type != nil {
								c.env[nm.Name] = typeName(vs.Type)
							} else if i < len(vs.Values) {
								c.env[nm.Name] = c.typeOf(vs.Values[i])
							}
						}
					}
				}
			}
		case *ast.AssignStmt:
			if len(s.Rhs) == 1 {
				if call, ok := s.Rhs[0].(*ast.CallExpr); ok {
					if id, ok := call.Fun.(*ast.Ident); ok && id.Name == "transformAmount" {
						if l, ok := s.Lhs[0].(*ast.Ident); ok {
							c.amt[l.Name] = true
						}
					}
					if fi := c.localCallee(call); fi != nil && fi.decl.Type.Results != nil && s.Tok == token.DEFINE {
						i := 0
						for _, r := range fi.decl.Type.Results.List {
							k := len(r.Names)
							if k == 0 {
								k = 1
							}
							for j := 0; j < k; j++ {
								if i < len(s.Lhs) {
									if l, ok := s.Lhs[i].(*ast.Ident); ok && l.Name != "_" {
										if _, have := c.env[l.Name]; !have {
											c.env[l.Name] = typeName(r.Type)
										}
									}
								}
								i++
							}
						}
						return true
					}
				}
			}
			if s.Tok == token.DEFINE && len(s.Lhs) == len(s.Rhs) {
				for i, l := range s.Lhs {
					if id, ok := l.(*ast.Ident); ok && id.Name != "_" {
						if _, have := c.env[id.Name]; !have {
							c.env[id.Name] = c.typeOf(s.Rhs[i])
						}
					}
				}
			}
		}
		return true
	}
	ast.Inspect(body, visit)
	c.trackNil(body, ft)
}

// trackNil selects the variables whose nil-ness the model follows: they receive a result of an inlined helper
// (or are named results) and are compared with nil somewhere in this function.
func (c *fnCtx) trackNil(body *ast.BlockStmt, ft *ast.FuncType) {
	c.slots = map[*ast.Object]int{}
	tested := map[*ast.Object]bool{}
	cand := map[*ast.Object]bool{}
	ast.Inspect(body, func(n ast.Node) bool {
		switch t := n.(type) {
		case *ast.FuncLit:
			return false
		case *ast.BinaryExpr:
			if t.Op == token.EQL || t.Op == token.NEQ {
				l, r := unparen(t.X), unparen(t.Y)
				if id, ok := r.(*ast.Ident); ok && id.Name == "nil" {
					if v, ok := l.(*ast.Ident); ok && v.Obj != nil {
						tested[v.Obj] = true
					}
				}
			}
		case *ast.AssignStmt:
			if len(t.Rhs) == 1 {
				if call, ok := unparen(t.Rhs[0]).(*ast.CallExpr); ok && c.inlineTarget(call) != nil && c.calleeRelevant(c.inlineTarget(call)) {
					for _, l := range t.Lhs {
						if id, ok := l.(*ast.Ident); ok && id.Obj != nil && id.Name != "_" {
							cand[id.Obj] = true
						}
					}
				}
			}
		}
		return true
	})
	if ft.Results != nil {
		i := 0
		for _, f := range ft.Results.List {
			for _, nm := range f.Names {
				if nm.Obj != nil && i < len(c.rv) && c.rv[i] > 0 {
					cand[nm.Obj] = true
					tested[nm.Obj] = true
				}
				i++
			}
		}
	}
	for o := range cand {
		if tested[o] {
			c.slots[o] = c.p.slotOf(o)
		}
	}
}

func (p *Proc) slotOf(o *ast.Object) int {
	if p.slotIDs == nil {
		p.slotIDs = map[interface{}]int{}
	}
	if v, ok := p.slotIDs[o]; ok {
		return v
	}
	p.slotIDs[o] = len(p.slotIDs) + 1
	return p.slotIDs[o]
}

func (p *Proc) nextDefer() { p.deferSeq++ }

// buildFunc compiles a function instance (an inlined call or a process root).  next = continuation.
func (c *fnCtx) buildFunc(body *ast.BlockStmt, ft *ast.FuncType, recv *ast.FieldList, next int) int {
	c.prepass(body, ft, recv)
	// exit chain: deferred bodies in reverse registration order
	type dd struct {
		s  *ast.DeferStmt
		id int
	}
	var ds []dd
	for s, id := range c.defers {
		ds = append(ds, dd{s, id})
	}
	sort.Slice(ds, func(i, j int) bool { return ds[i].id < ds[j].id })
	cur := next
	for _, d := range ds {
		var bodyEntry int
		if fl, ok := d.s.Call.Fun.(*ast.FuncLit); ok {
			cc := c.child()
			cc.defers = map[*ast.DeferStmt]int{}
			cc.brk, cc.cont = nil, nil
			cc.rv, cc.condMode = nil, false
			bodyEntry = cc.buildFunc(fl.Body, fl.Type, nil, cur)
		} else {
			bodyEntry = c.calls(d.s.Call, cur)
		}
		und := c.node("undefer", "", "", d.id, bodyEntry, 0, d.s)
		cur = c.node("test", "deferred", "==", d.id, und, cur, d.s)
	}
	c.exit = cur
	return c.stmts(body.List, c.exit)
}

func (c *fnCtx) child() *fnCtx {
	cc := *c
	return &cc
}

// ------------------------------------------------------------------ statements (built backwards)

func (c *fnCtx) stmts(list []ast.Stmt, next int) int {
	for i := len(list) - 1; i >= 0; i-- {
		next = c.stmt(list[i], next)
	}
	return next
}

func (c *fnCtx) stmt(s ast.Stmt, next int) int {
	switch s := s.(type) {
	case nil:
		return next
	case *ast.BlockStmt:
		return c.stmts(s.List, next)
	case *ast.ExprStmt:
		return c.calls(s.X, next)
	case *ast.EmptyStmt:
		return next
	case *ast.DeclStmt:
		n := next
		if gd, ok := s.Decl.(*ast.GenDecl); ok {
			for _, sp := range gd.Specs {
				if vs, ok := sp.(*ast.ValueSpec); ok {
					for i, nm := range vs.Names {
						if slot := c.slots[nm.Obj]; slot > 0 && nm.Obj != nil {
							if len(vs.Values) == len(vs.Names) {
								n = c.nilNode(slot, vs.Values[i], s, n)
							} else if len(vs.Values) == 0 {
								n = c.node("nl", "", "=", slot, n, 0, s)
							} else {
								n = c.node("nl", "", "=?", slot, n, 0, s)
							}
						}
					}
				}
			}
		}
		return c.calls(s, n)
	case *ast.IncDecStmt:
		d := 1
		if s.Tok == token.DEC {
			d = -1
		}
		return c.calls(s.X, c.write(s.X, "+=", d, true, nil, s, next))
	case *ast.AssignStmt:
		n := next
		for i := len(s.Lhs) - 1; i >= 0; i-- {
			var rhs ast.Expr
			if len(s.Rhs) == len(s.Lhs) {
				rhs = s.Rhs[i]
			}
			op, cv, known := "=?", 0, false
			switch s.Tok {
			case token.ASSIGN, token.DEFINE:
				op = "="
				if v, ok := c.constOf(rhs); ok {
					cv, known = v, true
				}
			case token.ADD_ASSIGN, token.SUB_ASSIGN:
				op = "+="
				if v, ok := c.constOf(rhs); ok {
					cv, known = v, true
					if s.Tok == token.SUB_ASSIGN {
						cv = -cv
					}
				}
			}
			n = c.write(s.Lhs[i], op, cv, known, rhs, s, n)
		}
		// nil-ness of tracked variables
		var inl *ast.CallExpr
		if len(s.Rhs) == 1 {
			if call, ok := unparen(s.Rhs[0]).(*ast.CallExpr); ok && c.inlineTarget(call) != nil {
				inl = call
			}
		}
		if inl != nil {
			rv := make([]int, len(s.Lhs))
			for i, l := range s.Lhs {
				if id, ok := l.(*ast.Ident); ok && id.Obj != nil {
					rv[i] = c.slots[id.Obj]
				}
			}
			n = c.inlineRV(c.inlineTarget(inl), inl, n, rv)
			for i := len(inl.Args) - 1; i >= 0; i-- {
				n = c.calls(inl.Args[i], n)
			}
		} else {
			for i := len(s.Lhs) - 1; i >= 0; i-- {
				if id, ok := s.Lhs[i].(*ast.Ident); ok && id.Obj != nil && c.slots[id.Obj] > 0 {
					if len(s.Rhs) == len(s.Lhs) {
						n = c.nilNode(c.slots[id.Obj], s.Rhs[i], s, n)
					} else {
						n = c.node("nl", "", "=?", c.slots[id.Obj], n, 0, s)
					}
				}
			}
			for i := len(s.Rhs) - 1; i >= 0; i-- {
				n = c.calls(s.Rhs[i], n)
			}
		}
		for i := len(s.Lhs) - 1; i >= 0; i-- {
			if _, isId := s.Lhs[i].(*ast.Ident); !isId {
				n = c.calls(s.Lhs[i], n)
			}
		}
		return n
	case *ast.ReturnStmt:
		if c.condMode {
			if len(s.Results) == 1 {
				return c.cond(s.Results[0], c.condT, c.condF)
			}
			return c.node("nd", "", "", 0, c.condT, c.condF, s)
		}
		n := c.exit
		if c.rv != nil { // tell the caller's tracked variables whether they receive nil
			var named []*ast.Ident
			if c.fi.decl.Type.Results != nil {
				for _, f := range c.fi.decl.Type.Results.List {
					named = append(named, f.Names...)
				}
			}
			for i := len(c.rv) - 1; i >= 0; i-- {
				if c.rv[i] == 0 {
					continue
				}
				switch {
				case len(s.Results) == len(c.rv):
					n = c.nilNode(c.rv[i], s.Results[i], s, n)
				case len(s.Results) == 0 && i < len(named) && c.slots[named[i].Obj] > 0:
					n = c.nodeS("nl", "", "cp", c.rv[i], c.slots[named[i].Obj], n, 0, s)
				default:
					n = c.node("nl", "", "=?", c.rv[i], n, 0, s)
				}
			}
		}
		for i := len(s.Results) - 1; i >= 0; i-- {
			n = c.calls(s.Results[i], n)
		}
		return n
	case *ast.DeferStmt:
		id := c.defers[s]
		n := c.node("defer", "", "", id, next, 0, s)
		// arguments of a deferred plain call are evaluated now
		if _, ok := s.Call.Fun.(*ast.FuncLit); !ok {
			for i := len(s.Call.Args) - 1; i >= 0; i-- {
				n = c.calls(s.Call.Args[i], n)
			}
		}
		return n
	case *ast.GoStmt:
		sc := c.scratch()
		e := sc.calls(s.Call, 0)
		if sc.interesting(e) {
			c.x.unsupported(s.Pos(), "go statement with model-relevant body")
		}
		return next
	case *ast.IfStmt:
		th := c.stmt(s.Body, next)
		el := next
		if s.Else != nil {
			el = c.stmt(s.Else, next)
		}
		n := c.cond(s.Cond, th, el)
		return c.stmt(s.Init, n)
	case *ast.ForStmt:
		head := c.node("skip", "", "", 0, 0, 0, s)
		c.brk = append(c.brk, next)
		post := c.stmt(s.Post, head)
		c.cont = append(c.cont, post)
		c.pushLabel(s, next, post)
		body := c.stmt(s.Body, post)
		c.brk, c.cont = c.brk[:len(c.brk)-1], c.cont[:len(c.cont)-1]
		var test int
		if s.Cond != nil {
			test = c.cond(s.Cond, body, next)
		} else {
			test = body
		}
		c.p.Nodes[head-1].T = test
		return c.stmt(s.Init, head)
	case *ast.RangeStmt:
		head := c.node("skip", "", "", 0, 0, 0, s)
		c.brk = append(c.brk, next)
		c.cont = append(c.cont, head)
		c.pushLabel(s, next, head)
		body := c.stmt(s.Body, head)
		c.brk, c.cont = c.brk[:len(c.brk)-1], c.cont[:len(c.cont)-1]
		c.p.Nodes[head-1].T = c.node("nd", "", "", 0, body, next, s)
		return c.calls(s.X, head)
	case *ast.SwitchStmt:
		return c.switchStmt(s.Init, s.Tag, s.Body, next, s, false)
	case *ast.TypeSwitchStmt:
		n := c.switchStmt(s.Init, nil, s.Body, next, s, true)
		return c.stmt(s.Assign, n)
	case *ast.SelectStmt:
		c.brk = append(c.brk, next)
		n := next
		hasDefault := false
		for i := len(s.Body.List) - 1; i >= 0; i-- {
			cl := s.Body.List[i].(*ast.CommClause)
			if cl.Comm == nil {
				hasDefault = true
			}
			b := c.stmts(cl.Body, next)
			b = c.stmt(cl.Comm, b)
			if i == len(s.Body.List)-1 {
				n = b
			} else {
				n = c.node("nd", "", "", 0, b, n, cl)
			}
		}
		_ = hasDefault
		c.brk = c.brk[:len(c.brk)-1]
		return n
	case *ast.LabeledStmt:
		c.pendingLabel = s.Label.Name
		return c.stmt(s.Stmt, next)
	case *ast.BranchStmt:
		switch s.Tok {
		case token.BREAK:
			if s.Label != nil {
				if l, ok := c.labels[s.Label.Name]; ok {
					return l[0]
				}
			} else if len(c.brk) > 0 {
				return c.brk[len(c.brk)-1]
			}
		case token.CONTINUE:
			if s.Label != nil {
				if l, ok := c.labels[s.Label.Name]; ok {
					return l[1]
				}
			} else if len(c.cont) > 0 {
				return c.cont[len(c.cont)-1]
			}
		case token.FALLTHROUGH:
			if c.fallT > 0 {
				return c.fallT
			}
		}
		c.x.unsupported(s.Pos(), "branch statement %s", s.Tok)
		return next
	case *ast.SendStmt:
		return c.calls(s.Value, c.calls(s.Chan, next))
	}
	c.x.unsupported(s.Pos(), "statement %T", s)
	return next
}

func (c *fnCtx) pushLabel(s ast.Stmt, brk, cont int) {
	if c.pendingLabel != "" {
		if c.labels == nil {
			c.labels = map[string][2]int{}
		} else {
			m := map[string][2]int{}
			for k, v := range c.labels {
				m[k] = v
			}
			c.labels = m
		}
		c.labels[c.pendingLabel] = [2]int{brk, cont}
		c.pendingLabel = ""
	}
}

func (c *fnCtx) switchStmt(init ast.Stmt, tag ast.Expr, body *ast.BlockStmt, next int, at ast.Node, isType bool) int {
	c.brk = append(c.brk, next)
	// bodies first (backwards, so that fallthrough knows the next body)
	n := len(body.List)
	entries := make([]int, n)
	savedFall := c.fallT
	c.fallT = 0
	for i := n - 1; i >= 0; i-- {
		cl := body.List[i].(*ast.CaseClause)
		entries[i] = c.stmts(cl.Body, next)
		c.fallT = entries[i]
	}
	c.fallT = savedFall
	c.brk = c.brk[:len(c.brk)-1]
	// dispatch chain: default (if any) is the final alternative, otherwise fall out
	final := next
	for i, s := range body.List {
		if s.(*ast.CaseClause).List == nil {
			final = entries[i]
		}
	}
	cur := final
	for i := n - 1; i >= 0; i-- {
		cl := body.List[i].(*ast.CaseClause)
		if cl.List == nil {
			continue
		}
		if tag == nil && !isType && len(cl.List) >= 1 && isBoolish(cl.List[0]) {
			for j := len(cl.List) - 1; j >= 0; j-- {
				cur = c.cond(cl.List[j], entries[i], cur)
			}
		} else {
			t := c.node("nd", "", "", 0, entries[i], cur, cl)
			cur = t
			if !isType {
				for j := len(cl.List) - 1; j >= 0; j-- {
					cur = c.calls(cl.List[j], cur)
				}
			}
		}
	}
	if tag != nil {
		cur = c.calls(tag, cur)
	}
	return c.stmt(init, cur)
}

func isBoolish(e ast.Expr) bool {
	switch t := e.(type) {
	case *ast.BinaryExpr, *ast.UnaryExpr, *ast.CallExpr, *ast.ParenExpr:
		return true
	case *ast.Ident:
		return t.Name == "true" || t.Name == "false"
	case *ast.SelectorExpr:
		return true
	}
	return false
}
