package main

import (
	"go/ast"
	"go/parser"
	"go/token"
	"path/filepath"
	"strings"
)

// chainFacts records (informative, no verdict) how chain/chainservice.go runs client queries:
// on a block state created for the request and never committed.
func chainFacts(repo string, out *Output) {
	fset := token.NewFileSet()
	f, err := parser.ParseFile(fset, filepath.Join(repo, "chain", "chainservice.go"), nil, 0)
	if err != nil {
		out.Facts["query_block_state"] = "unreadable: " + err.Error()
		return
	}
	ast.Inspect(f, func(n ast.Node) bool {
		cc, ok := n.(*ast.CaseClause)
		if !ok || len(cc.List) != 1 {
			return true
		}
		se, ok := cc.List[0].(*ast.StarExpr)
		if !ok {
			return true
		}
		sel, ok := se.X.(*ast.SelectorExpr)
		if !ok || (sel.Sel.Name != "GetQuery" && sel.Sel.Name != "CheckFeeDelegation") {
			return true
		}
		fresh, entry, commits := false, false, []string{}
		for _, s := range cc.Body {
			ast.Inspect(s, func(m ast.Node) bool {
				call, ok := m.(*ast.CallExpr)
				if !ok {
					return true
				}
				if fs, ok := call.Fun.(*ast.SelectorExpr); ok {
					switch {
					case fs.Sel.Name == "NewBlockState":
						fresh = true
					case fs.Sel.Name == "Query" || fs.Sel.Name == "CheckFeeDelegation":
						if id, ok := fs.X.(*ast.Ident); ok && id.Name == "contract" {
							entry = true
						}
					case strings.HasPrefix(fs.Sel.Name, "Commit") || strings.HasPrefix(fs.Sel.Name, "Apply") ||
						fs.Sel.Name == "Update" || fs.Sel.Name == "SetRoot" || fs.Sel.Name == "Stage":
						commits = append(commits, fs.Sel.Name)
					}
				}
				return true
			})
		}
		v := "other"
		if entry && fresh && len(commits) == 0 {
			v = "fresh block state, never committed"
		} else if len(commits) > 0 {
			v = "commits: " + strings.Join(commits, ",")
		}
		out.Facts["chainservice."+sel.Sel.Name] = v
		return true
	})
}
