package main

import (
	"encoding/json"
	"flag"
	"fmt"
	"go/ast"
	"os"
	"path/filepath"
	"sort"
	"strings"
)

var cFiles = []string{"vm.c", "system_module.c", "contract_module.c", "db_module.c", "state_module.c"}

func main() {
	repo := os.Getenv("VERIF_REPO")
	if repo == "" {
		repo = "/repo"
	}
	flag.StringVar(&repo, "repo", repo, "repository root")
	outDir := flag.String("out", ".", "output directory (VmGuards.tla, vmguards.json)")
	flag.Parse()

	out := &Output{Repo: repo, Facts: map[string]string{}}
	dir := filepath.Join(repo, "contract")
	x, err := parseGo(dir, out)
	if err != nil {
		fmt.Fprintln(os.Stderr, "vmguards:", err)
		os.Exit(1)
	}
	for _, need := range []string{"vm_callback.go", "vm.go", "vm_state.go"} {
		if x.files[need] == nil {
			fmt.Fprintln(os.Stderr, "vmguards: missing", need)
			os.Exit(1)
		}
	}

	root := func(name, kind string, fi *funcInfo, prologue func(c *fnCtx, next int) int) *Proc {
		p := &Proc{Name: name, Kind: kind, File: fi.file, Line: x.fset.Position(fi.decl.Pos()).Line}
		ret := p.add(&Node{K: "ret", Src: x.src(fi.decl.Pos())})
		key := fi.decl.Name.Name
		if fi.recv != "" {
			key = fi.recv + "." + key
		}
		c := &fnCtx{x: x, fi: fi, p: p, env: map[string]string{}, amt: map[string]bool{}, bconst: map[string]bool{},
			defers: map[*ast.DeferStmt]int{}, stack: []string{key}}
		e := c.buildFunc(fi.decl.Body, fi.decl.Type, fi.decl.Recv, ret)
		if prologue != nil {
			e = prologue(c, e)
		}
		p.Entry = e
		p.simplify()
		return p
	}

	// 1. exported callbacks of vm_callback.go
	var cbs []string
	for name, file := range x.exported {
		if file == "vm_callback.go" {
			cbs = append(cbs, name)
		}
	}
	sort.Strings(cbs)
	goCB := map[string]bool{}
	for _, name := range cbs {
		out.Procs = append(out.Procs, root(name, "gocb", x.funcs[name], nil))
		goCB[name] = true
	}
	out.GoCallbacks = cbs

	// 2. the executor: nested execution with the view counter
	if fi := x.funcs["executor.call"]; fi != nil {
		out.Procs = append(out.Procs, root("executor.call", "internal", fi, nil))
	} else {
		out.Unsupported = append(out.Unsupported, "vm.go: (*executor).call not found")
	}

	// 3. entry points.  Call/Create get the context built by contract.go:Execute as prologue.
	var txCtx *ast.CallExpr
	var txCtxFn *funcInfo
	for _, fi := range x.funcs {
		if fi.file != "contract.go" || fi.decl.Body == nil {
			continue
		}
		ast.Inspect(fi.decl.Body, func(n ast.Node) bool {
			if call, ok := n.(*ast.CallExpr); ok {
				if id, ok := call.Fun.(*ast.Ident); ok && id.Name == "NewVmContext" {
					txCtx, txCtxFn = call, fi
				}
			}
			return true
		})
	}
	if txCtx == nil {
		out.Unsupported = append(out.Unsupported, "contract.go: no call of NewVmContext found (transaction context)")
	}
	for _, name := range []string{"Call", "Create", "Query", "CheckFeeDelegation"} {
		fi := x.funcs[name]
		if fi == nil {
			out.Unsupported = append(out.Unsupported, "vm.go: entry point "+name+" not found")
			continue
		}
		var pro func(c *fnCtx, next int) int
		if (name == "Call" || name == "Create") && txCtx != nil {
			pro = func(c *fnCtx, next int) int {
				cc := &fnCtx{x: x, fi: txCtxFn, p: c.p, env: map[string]string{}, amt: map[string]bool{}, bconst: map[string]bool{},
					defers: map[*ast.DeferStmt]int{}, stack: []string{"Execute"}}
				return cc.inline(x.funcs["NewVmContext"], txCtx, next)
			}
		}
		out.Procs = append(out.Procs, root(name, "entry", fi, pro))
		out.Entries = append(out.Entries, name)
	}

	// 4. facts
	out.Facts["luaCheckView"] = "other"
	if fi := x.funcs["luaCheckView"]; fi != nil {
		ast.Inspect(fi.decl.Body, func(n ast.Node) bool {
			if r, ok := n.(*ast.ReturnStmt); ok && len(r.Results) == 1 && selName(r.Results[0]) == "nestedView" {
				out.Facts["luaCheckView"] = "nestedView"
			}
			return true
		})
	}

	chainFacts(repo, out)

	// 5. C modules
	cx := parseC(dir, cFiles, out, goCB, out.Facts["luaCheckView"] == "nestedView")
	cx.trivial = map[string]bool{}
	for _, p := range out.Procs {
		if p.Kind == "gocb" && len(p.Nodes) == 1 {
			cx.trivial[p.Name] = true
		}
	}
	var capi []string
	for _, name := range cx.order {
		f := cx.funcs[name]
		if f.api {
			out.Procs = append(out.Procs, cx.buildProc(f, "capi"))
			capi = append(capi, name)
		} else if strings.HasPrefix(name, "vm_internal_view_") {
			out.Procs = append(out.Procs, cx.buildProc(f, "chelper"))
		}
	}
	sort.Strings(capi)
	out.CApi = capi
	// LuaJIT's view-function wrapper: hooks installed by initViewFunction
	hookS, hookE := "", ""
	if f := cx.funcs["initViewFunction"]; f != nil {
		t := f.body
		for i := 0; i+2 < len(t); i++ {
			if t[i+1].s == "=" && t[i].s == "lj_internal_view_start" {
				hookS = t[i+2].s
			}
			if t[i+1].s == "=" && t[i].s == "lj_internal_view_end" {
				hookE = t[i+2].s
			}
		}
	}
	out.Facts["view_hook_start"], out.Facts["view_hook_end"] = hookS, hookE
	if cx.funcs[hookS] != nil && cx.funcs[hookE] != nil {
		w := &Proc{Name: "lj_view_wrapper", Kind: "internal", File: "vm.c", Line: cx.funcs["initViewFunction"].line}
		src := fmt.Sprintf("vm.c:%d", w.Line)
		w.Nodes = []*Node{
			{K: "cb", A: hookS, T: 2, Src: src, Txt: "lj_internal_view_start(L)"},
			{K: "run", T: 3, Src: src, Txt: "view function body (inside LuaJIT)"},
			{K: "cb", A: hookE, T: 4, Src: src, Txt: "lj_internal_view_end(L)"},
			{K: "ret", Src: src},
		}
		w.Entry = 1
		out.Procs = append(out.Procs, w)
	} else {
		out.Unsupported = append(out.Unsupported, "vm.c: initViewFunction does not install known view hooks")
	}

	// 6. unknown calls
	bad := false
	for _, p := range out.Procs {
		before := p.unknownsBeforeMut()
		for i, n := range p.Nodes {
			if n.K == "unknown" {
				out.Unknowns = append(out.Unknowns, Unknown{Proc: p.Name, Callee: n.A, Src: n.Src, Before: before[i+1]})
				if before[i+1] {
					bad = true
				}
			}
		}
	}
	sort.Strings(out.FlagWrites)
	out.FlagWrites = uniq(out.FlagWrites)
	out.Unsupported = uniq(out.Unsupported)
	sort.Slice(out.PureCalls, func(i, j int) bool {
		if out.PureCalls[i].Name != out.PureCalls[j].Name {
			return out.PureCalls[i].Name < out.PureCalls[j].Name
		}
		return out.PureCalls[i].Src < out.PureCalls[j].Src
	})
	for _, pc := range out.PureCalls {
		sort.Strings(pc.Procs)
	}
	for m := range pureMethods {
		out.PureMethods = append(out.PureMethods, m)
	}
	sort.Strings(out.PureMethods)
	for f, cls := range pkgFuncs {
		if cls == "pure" {
			out.PurePkgFunc = append(out.PurePkgFunc, f)
		}
	}
	sort.Strings(out.PurePkgFunc)
	for g := range govPkgs {
		if purePkgs[g] {
			out.PureGovPkgs = append(out.PureGovPkgs, g)
		}
	}
	sort.Strings(out.PureGovPkgs)

	os.MkdirAll(*outDir, 0o755)
	jb, _ := json.MarshalIndent(out, "", " ")
	if err := os.WriteFile(filepath.Join(*outDir, "vmguards.json"), jb, 0o644); err != nil {
		fmt.Fprintln(os.Stderr, "vmguards:", err)
		os.Exit(1)
	}
	if err := os.WriteFile(filepath.Join(*outDir, "VmGuards.tla"), []byte(emitTLA(out)), 0o644); err != nil {
		fmt.Fprintln(os.Stderr, "vmguards:", err)
		os.Exit(1)
	}
	nn := 0
	for _, p := range out.Procs {
		nn += len(p.Nodes)
	}
	fmt.Printf("vmguards: %d processes (%d go callbacks, %d C api, %d entries), %d nodes, %d unknown calls, %d unsupported constructs\n",
		len(out.Procs), len(out.GoCallbacks), len(out.CApi), len(out.Entries), nn, len(out.Unknowns), len(out.Unsupported))
	if bad || len(out.Unsupported) > 0 {
		for _, u := range out.Unknowns {
			if u.Before {
				fmt.Printf("UNKNOWN %s: %s calls %s before any mutating primitive\n", u.Src, u.Proc, u.Callee)
			}
		}
		for _, u := range out.Unsupported {
			fmt.Printf("UNSUPPORTED %s\n", u)
		}
		os.Exit(3)
	}
}

func uniq(s []string) []string {
	sort.Strings(s)
	var r []string
	for i, v := range s {
		if i == 0 || v != s[i-1] {
			r = append(r, v)
		}
	}
	return r
}

func emitTLA(o *Output) string {
	var sb strings.Builder
	sb.WriteString("------------------------------ MODULE VmGuards ------------------------------\n")
	sb.WriteString("\\* GENERATED by /verif/tools/vmguards from " + o.Repo + "/contract -- do not edit.\n")
	sb.WriteString("\\* One control-flow graph per process; node kinds are documented in tools/vmguards/model.go.\n")
	sb.WriteString("EXTENDS Integers, Sequences, TLC\n\n")
	sb.WriteString("N(k, a, op, c, t, f, s, src) == [k |-> k, a |-> a, op |-> op, c |-> c, t |-> t, f |-> f, s |-> s, src |-> src]\n\n")
	set := func(name string, xs []string) {
		var q []string
		for _, s := range xs {
			q = append(q, tlaStr(s))
		}
		sb.WriteString(name + " == {" + strings.Join(q, ", ") + "}\n")
	}
	set("GoCallbacks", o.GoCallbacks)
	set("CApi", o.CApi)
	set("Entries", o.Entries)
	var names []string
	for _, p := range o.Procs {
		names = append(names, p.Name)
	}
	set("ProcNames", names)
	sb.WriteString("\nProcEntry ==\n")
	for i, p := range o.Procs {
		sep := "  @@ "
		if i == 0 {
			sep = "     "
		}
		sb.WriteString(fmt.Sprintf("%s(%s :> %d)\n", sep, tlaStr(p.Name), p.Entry))
	}
	sb.WriteString("\nProcs ==\n")
	for i, p := range o.Procs {
		sep := "  @@ "
		if i == 0 {
			sep = "     "
		}
		sb.WriteString(fmt.Sprintf("%s(%s :> <<\n", sep, tlaStr(p.Name)))
		for j, n := range p.Nodes {
			c := ","
			if j == len(p.Nodes)-1 {
				c = ""
			}
			sb.WriteString(fmt.Sprintf("        N(%s, %s, %s, %d, %d, %d, %d, %s)%s\n", tlaStr(n.K), tlaStr(n.A), tlaStr(n.Op), n.C, n.T, n.F, n.S, tlaStr(n.Src), c))
		}
		sb.WriteString("     >>)\n")
	}
	sb.WriteString("=============================================================================\n")
	return sb.String()
}
