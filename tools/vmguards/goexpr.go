package main

import (
	"go/ast"
	"go/token"
	"strconv"
	"strings"
)

// scratch returns a context writing into a throw-away process (used to test whether code is model-relevant).
func (c *fnCtx) scratch() *fnCtx {
	cc := c.child()
	cc.p = &Proc{Name: "_scratch", deferSeq: 1000}
	cc.p.add(&Node{K: "ret"})
	return cc
}

func (c *fnCtx) interesting(entry int) bool {
	if entry <= 0 {
		return false
	}
	seen := map[int]bool{}
	st := []int{entry}
	for len(st) > 0 {
		i := st[len(st)-1]
		st = st[:len(st)-1]
		if i <= 0 || seen[i] {
			continue
		}
		seen[i] = true
		n := c.p.Nodes[i-1]
		switch n.K {
		case "skip", "nd", "ret", "defer", "undefer", "nl":
		case "test":
			if n.A != "deferred" && n.A != "nl" {
				return true
			}
		default:
			return true
		}
		st = append(st, n.T, n.F)
	}
	return false
}

func (c *fnCtx) constOf(e ast.Expr) (int, bool) {
	switch t := e.(type) {
	case nil:
		return 0, false
	case *ast.ParenExpr:
		return c.constOf(t.X)
	case *ast.BasicLit:
		if t.Kind == token.INT {
			v, err := strconv.Atoi(t.Value)
			return v, err == nil
		}
	case *ast.Ident:
		if t.Name == "true" {
			return 1, true
		}
		if t.Name == "false" {
			return 0, true
		}
		if v, ok := c.bconst[t.Name]; ok {
			if v {
				return 1, true
			}
			return 0, true
		}
	case *ast.UnaryExpr:
		if t.Op == token.SUB {
			if v, ok := c.constOf(t.X); ok {
				return -v, true
			}
		}
		if t.Op == token.NOT {
			if v, ok := c.constOf(t.X); ok {
				return 1 - v, true
			}
		}
	case *ast.CallExpr: // conversions int32(1), C.int(0)
		if len(t.Args) == 1 {
			if c.localCallee(t) == nil {
				if _, ok := t.Fun.(*ast.FuncLit); !ok {
					return c.constOf(t.Args[0])
				}
			}
		}
	}
	return 0, false
}

// selName returns the final selector name of x.y.z (or ident name), unwrapping conversions/parens.
func selName(e ast.Expr) string {
	switch t := e.(type) {
	case *ast.ParenExpr:
		return selName(t.X)
	case *ast.SelectorExpr:
		return t.Sel.Name
	case *ast.Ident:
		return t.Name
	case *ast.CallExpr:
		if len(t.Args) == 1 {
			switch f := t.Fun.(type) {
			case *ast.SelectorExpr:
				if id, ok := f.X.(*ast.Ident); ok && id.Name == "C" {
					return selName(t.Args[0])
				}
			case *ast.Ident:
				if builtinFuncs[f.Name] {
					return selName(t.Args[0])
				}
			}
		}
	}
	return ""
}

func isField(e ast.Expr, name string) bool {
	if p, ok := e.(*ast.ParenExpr); ok {
		return isField(p.X, name)
	}
	s, ok := e.(*ast.SelectorExpr)
	return ok && s.Sel.Name == name
}

var flipOp = map[string]string{"<": ">", ">": "<", "<=": ">=", ">=": "<=", "==": "==", "!=": "!="}

// atom recognises the conditions the model interprets.  ok=false => uninterpreted.
func (c *fnCtx) atom(e ast.Expr) (a, op string, cv int, ok bool) {
	switch t := e.(type) {
	case *ast.ParenExpr:
		return c.atom(t.X)
	case *ast.Ident:
		if v, k := c.constOf(t); k {
			return "const", "==", v, true
		}
	case *ast.SelectorExpr:
		switch t.Sel.Name {
		case "isQuery", "isView":
			return t.Sel.Name, "==", 1, true
		}
	case *ast.BinaryExpr:
		opS := t.Op.String()
		if _, cmp := flipOp[opS]; !cmp {
			return
		}
		l, r := t.X, t.Y
		if _, lc := c.constOf(l); lc {
			if _, rc := c.constOf(r); !rc {
				l, r = r, l
				opS = flipOp[opS]
			}
		}
		// <x>.tx ==/!= nil
		if id, isId := r.(*ast.Ident); isId && id.Name == "nil" && isField(l, "tx") && (opS == "==" || opS == "!=") {
			return "tx", opS, 0, true
		}
		rv, rc := c.constOf(r)
		if !rc {
			return
		}
		switch n := selName(l); {
		case n == "isQuery" || n == "isView":
			if _, isSel := unparen(l).(*ast.SelectorExpr); isSel && (opS == "==" || opS == "!=") {
				return n, opS, rv, true
			}
		case n == "nestedView":
			return "nestedView", opS, rv, true
		case n == "ForkVersion" || n == "currentForkVersion" || n == "forkVersion":
			return "fork", opS, rv, true
		}
		if id, isId := unparen(l).(*ast.Ident); isId {
			if _, k := c.bconst[id.Name]; k && (opS == "==" || opS == "!=") {
				lv, _ := c.constOf(id)
				res := 0
				if (lv == rv) == (opS == "==") {
					res = 1
				}
				return "const", "==", res, true
			}
		}
		// <amt>.Cmp(zero) op k   /   <amt>.Sign() op k
		if call, isCall := unparen(l).(*ast.CallExpr); isCall {
			if s, isSel := call.Fun.(*ast.SelectorExpr); isSel {
				if id, isId := unparen(s.X).(*ast.Ident); isId && c.amt[id.Name] {
					if s.Sel.Name == "Sign" && len(call.Args) == 0 {
						return "amt", opS, rv, true
					}
					if s.Sel.Name == "Cmp" && len(call.Args) == 1 && isZeroBig(call.Args[0]) {
						return "amt", opS, rv, true
					}
				}
			}
		}
	}
	return
}

func unparen(e ast.Expr) ast.Expr {
	for {
		p, ok := e.(*ast.ParenExpr)
		if !ok {
			return e
		}
		e = p.X
	}
}

func isZeroBig(e ast.Expr) bool {
	switch t := unparen(e).(type) {
	case *ast.Ident:
		return t.Name == "zeroBig" || t.Name == "zero"
	case *ast.UnaryExpr:
		return t.Op == token.AND && isZeroBig(t.X)
	case *ast.CallExpr:
		if s, ok := t.Fun.(*ast.SelectorExpr); ok && (s.Sel.Name == "NewInt" || s.Sel.Name == "NewZeroAmount") {
			if len(t.Args) == 0 {
				return true
			}
			if b, ok := t.Args[0].(*ast.BasicLit); ok && b.Value == "0" {
				return true
			}
		}
	}
	return false
}

// cond compiles a boolean expression with short-circuit semantics.
func (c *fnCtx) cond(e ast.Expr, t, f int) int {
	switch x := e.(type) {
	case nil:
		return t
	case *ast.ParenExpr:
		return c.cond(x.X, t, f)
	case *ast.UnaryExpr:
		if x.Op == token.NOT {
			return c.cond(x.X, f, t)
		}
	case *ast.BinaryExpr:
		if x.Op == token.LAND {
			return c.cond(x.X, c.cond(x.Y, t, f), f)
		}
		if x.Op == token.LOR {
			return c.cond(x.X, t, c.cond(x.Y, t, f))
		}
	}
	// <tracked variable> ==/!= nil
	if b, ok := unparen(e).(*ast.BinaryExpr); ok && (b.Op == token.EQL || b.Op == token.NEQ) {
		if id, ok := unparen(b.Y).(*ast.Ident); ok && id.Name == "nil" {
			if v, ok := unparen(b.X).(*ast.Ident); ok && v.Obj != nil && c.slots[v.Obj] > 0 {
				return c.nodeS("test", "nl", b.Op.String(), 0, c.slots[v.Obj], t, f, e)
			}
		}
	}
	// a boolean helper of the package is compiled as the condition it computes
	if call, ok := unparen(e).(*ast.CallExpr); ok {
		if fi := c.boolHelper(call); fi != nil {
			n := c.inlineWith(fi, call, 0, nil, true, t, f)
			for i := len(call.Args) - 1; i >= 0; i-- {
				n = c.calls(call.Args[i], n)
			}
			return n
		}
	}
	if a, op, cv, ok := c.atom(e); ok {
		if a == "const" {
			if cv == 1 {
				return t
			}
			return f
		}
		return c.node("test", a, op, cv, t, f, e)
	}
	n := c.node("nd", "", "", 0, t, f, e)
	return c.calls(e, n)
}

// write handles an assignment target: context flags and the event list are modelled, everything else is not.
func (c *fnCtx) write(lhs ast.Expr, op string, cv int, known bool, rhs ast.Expr, at ast.Node, next int) int {
	s, ok := unparen(lhs).(*ast.SelectorExpr)
	if !ok {
		return next
	}
	switch s.Sel.Name {
	case "isQuery", "nestedView", "isView":
		if !known {
			op = "=?"
			cv = 0
		}
		if s.Sel.Name != "isView" {
			c.x.out.FlagWrites = append(c.x.out.FlagWrites, c.x.src(at.Pos())+" "+c.x.text(at))
		}
		return c.node("flag", s.Sel.Name, op, cv, next, 0, at)
	case "events":
		if rhs != nil {
			if _, isSlice := unparen(rhs).(*ast.SliceExpr); isSlice {
				return c.node("restore", "event", "", 0, next, 0, at)
			}
		}
		return c.node("mut", "event", "", 0, next, 0, at)
	case "eventCount":
		if rhs != nil && op == "=" {
			if call, isCall := unparen(rhs).(*ast.CallExpr); isCall && strings.Contains(c.x.text(call), "len(") {
				return next // recount after truncation
			}
		}
		return c.node("mut", "event", "", 0, next, 0, at)
	}
	return next
}

// calls emits the nodes of all calls contained in n (evaluation order), then continues at next.
func (c *fnCtx) calls(n ast.Node, next int) int {
	if n == nil {
		return next
	}
	var items []ast.Node // CallExpr / CompositeLit / FuncLit in post-order
	var walk func(ast.Node)
	walk = func(m ast.Node) {
		ast.Inspect(m, func(k ast.Node) bool {
			switch t := k.(type) {
			case *ast.FuncLit:
				items = append(items, t)
				return false
			case *ast.CallExpr:
				if fl, ok := t.Fun.(*ast.FuncLit); ok {
					for _, a := range t.Args {
						walk(a)
					}
					items = append(items, &immediate{fl})
					return false
				}
				walk(t.Fun)
				for _, a := range t.Args {
					walk(a)
				}
				items = append(items, t)
				return false
			case *ast.CompositeLit:
				for _, el := range t.Elts {
					walk(el)
				}
				items = append(items, t)
				return false
			}
			return true
		})
	}
	walk(n)
	for i := len(items) - 1; i >= 0; i-- {
		switch t := items[i].(type) {
		case *ast.CallExpr:
			next = c.call(t, next)
		case *ast.CompositeLit:
			next = c.composite(t, next)
		case *immediate:
			cc := c.child()
			cc.defers = map[*ast.DeferStmt]int{}
			cc.brk, cc.cont = nil, nil
			cc.rv, cc.condMode = nil, false
			next = cc.buildFunc(t.fl.Body, t.fl.Type, nil, next)
		case *ast.FuncLit:
			// a closure value: it may run later; model-relevant bodies are not supported
			sc := c.scratch()
			sc.defers = map[*ast.DeferStmt]int{}
			sc.rv, sc.condMode = nil, false
			e := sc.buildFunc(t.Body, t.Type, nil, 1)
			if sc.interesting(e) {
				c.x.unsupported(t.Pos(), "closure value with model-relevant body")
			}
		}
	}
	return next
}

type immediate struct{ fl *ast.FuncLit }

func (i *immediate) Pos() token.Pos { return i.fl.Pos() }
func (i *immediate) End() token.Pos { return i.fl.End() }

// composite: a fresh vmContext / executor value defines the flags (zero value when the key is absent).
func (c *fnCtx) composite(cl *ast.CompositeLit, next int) int {
	tn := ""
	if cl.Type != nil {
		tn = typeName(cl.Type)
	}
	var fields []string
	switch tn {
	case "vmContext":
		fields = []string{"nestedView", "isQuery"}
	case "executor":
		fields = []string{"isView"}
	default:
		return next
	}
	for _, f := range fields {
		op, cv, at := "=", 0, ast.Node(cl)
		for _, el := range cl.Elts {
			if kv, ok := el.(*ast.KeyValueExpr); ok {
				if id, ok := kv.Key.(*ast.Ident); ok && id.Name == f {
					at = kv
					if v, k := c.constOf(kv.Value); k {
						cv = v
					} else {
						op = "=?"
					}
				}
			}
		}
		if f != "isView" {
			c.x.out.FlagWrites = append(c.x.out.FlagWrites, c.x.src(at.Pos())+" "+tn+"{"+f+"} "+op+" "+strconv.Itoa(cv))
		}
		next = c.node("flag", f, op, cv, next, 0, at)
	}
	if tn == "vmContext" {
		// contract code can only run once a context exists (paths on which the constructor failed end before)
		next = c.node("ctx", "", "", 0, next, 0, cl)
	}
	return next
}

// call classifies one call expression.
func (c *fnCtx) call(call *ast.CallExpr, next int) int {
	switch f := call.Fun.(type) {
	case *ast.Ident:
		if _, isVar := c.env[f.Name]; isVar {
			return c.node("unknown", "closure:"+f.Name, "", 0, next, 0, call)
		}
		if builtinFuncs[f.Name] || c.x.types[f.Name] {
			return next
		}
		if prim, ok := localPrimitives[f.Name]; ok {
			return c.primitive(prim, call, next)
		}
		if fi, ok := c.x.funcs[f.Name]; ok && fi.recv == "" {
			return c.inline(fi, call, next)
		}
		return c.node("unknown", f.Name, "", 0, next, 0, call)
	case *ast.SelectorExpr:
		if id, ok := f.X.(*ast.Ident); ok && c.isImport(id.Name) {
			q := id.Name + "." + f.Sel.Name
			if id.Name == "C" && f.Sel.Name == "vm_pcall" {
				return c.node("run", "", "", 0, next, 0, call)
			}
			if cls, ok := pkgFuncs[q]; ok {
				if cls == "pure" {
					c.notePure(q, "", "", call)
				}
				return c.primitive(cls, call, next)
			}
			if purePkgs[id.Name] {
				if govPkgs[id.Name] {
					c.notePure(q, "", "", call)
				}
				return next
			}
			return c.node("unknown", q, "", 0, next, 0, call)
		}
		m := f.Sel.Name
		rt := c.typeOf(f.X)
		if m == "revertState" { // restoring a recovery point is a primitive of the model
			return c.node("restore", "recovery", "", 0, next, 0, call)
		}
		if rt != "" {
			if fi, ok := c.x.funcs[rt+"."+m]; ok {
				if rt == "executor" && m == "call" {
					return c.node("exec", "", "", 0, next, 0, call)
				}
				return c.inline(fi, call, next)
			}
		}
		if cls, ok := mutMethods[m]; ok {
			return c.node("mut", cls, "", 0, next, 0, call)
		}
		if cls, ok := restoreMethods[m]; ok {
			return c.node("restore", cls, "", 0, next, 0, call)
		}
		if pureMethods[m] {
			c.notePure(m, c.x.text(f.X), rt, call)
			return next
		}
		if fis := c.x.byMethod[m]; len(fis) == 1 && rt == "" {
			if fis[0].recv == "executor" && m == "call" {
				return c.node("exec", "", "", 0, next, 0, call)
			}
			return c.inline(fis[0], call, next)
		}
		if fis := c.x.byMethod[m]; len(fis) > 1 && (rt == "" || (c.x.types[rt] && c.x.structs[rt] == nil)) {
			// method of a package-local interface: any implementation may run
			cur := 0
			for _, fi := range fis {
				e := c.inline(fi, call, next)
				if cur == 0 {
					cur = e
				} else {
					cur = c.node("nd", "", "", 0, e, cur, call)
				}
			}
			return cur
		}
		return c.node("unknown", "."+m+" (receiver type "+rt+")", "", 0, next, 0, call)
	case *ast.ParenExpr, *ast.ArrayType, *ast.MapType, *ast.StarExpr, *ast.InterfaceType, *ast.IndexExpr, *ast.ChanType:
		return next // conversion
	case *ast.FuncType:
		return next
	}
	return c.node("unknown", c.x.text(call.Fun), "", 0, next, 0, call)
}

// notePure records a call site that is dropped from the model as read-only (the trusted base of C20).
func (c *fnCtx) notePure(name, recv, rt string, call *ast.CallExpr) {
	src := c.x.src(call.Pos())
	proc := ""
	if c.p != nil && c.p.Name != "_scratch" {
		proc = c.p.Name
	}
	for _, pc := range c.x.out.PureCalls {
		if pc.Name == name && pc.Src == src {
			if proc != "" {
				for _, q := range pc.Procs {
					if q == proc {
						return
					}
				}
				pc.Procs = append(pc.Procs, proc)
			}
			return
		}
	}
	pc := &PureCall{Name: name, Recv: recv, RT: rt, Src: src}
	if proc != "" {
		pc.Procs = []string{proc}
	}
	c.x.out.PureCalls = append(c.x.out.PureCalls, pc)
}

func (c *fnCtx) primitive(cls string, at ast.Node, next int) int {
	switch {
	case cls == "pure":
		return next
	case strings.HasPrefix(cls, "mut:"):
		return c.node("mut", cls[4:], "", 0, next, 0, at)
	case strings.HasPrefix(cls, "sqlopen:"):
		return c.node("sqlopen", cls[8:], "", 0, next, 0, at)
	}
	return c.node("unknown", cls, "", 0, next, 0, at)
}

// inline compiles the callee's body at the call site (its returns continue at next).
func (c *fnCtx) inline(fi *funcInfo, call *ast.CallExpr, next int) int {
	return c.inlineWith(fi, call, next, nil, false, 0, 0)
}

// inlineWith: rv = slots of the caller's variables receiving the results; condMode = compile `return b` as a branch to ct / cf.
func (c *fnCtx) inlineWith(fi *funcInfo, call *ast.CallExpr, next int, rv []int, condMode bool, ct, cf int) int {
	key := fi.decl.Name.Name
	if fi.recv != "" {
		key = fi.recv + "." + key
	}
	for _, s := range c.stack {
		if s == key {
			// recursion: accepted only if the whole body turns out to be irrelevant (checked by the outermost instance)
			if c.x.recHit == nil {
				c.x.recHit = map[string]bool{}
			}
			c.x.recHit[key] = true
			return next
		}
	}
	if len(c.stack) >= maxInline {
		c.x.unsupported(call.Pos(), "inlining depth exceeded at %s", key)
		return next
	}
	if fi.decl.Body == nil {
		return c.node("unknown", key+" (no body)", "", 0, next, 0, call)
	}
	cc := &fnCtx{x: c.x, fi: fi, p: c.p, env: map[string]string{}, amt: map[string]bool{}, bconst: map[string]bool{},
		defers: map[*ast.DeferStmt]int{}, stack: append(append([]string{}, c.stack...), key),
		rv: rv, condMode: condMode, condT: ct, condF: cf}
	// bind parameters: amount variables and boolean constants
	i := 0
	if fi.decl.Type.Params != nil {
		for _, p := range fi.decl.Type.Params.List {
			for _, nm := range p.Names {
				if i < len(call.Args) {
					arg := unparen(call.Args[i])
					if id, ok := arg.(*ast.Ident); ok && c.amt[id.Name] {
						cc.amt[nm.Name] = true
					}
					if typeName(p.Type) == "bool" {
						if v, ok := c.constOf(arg); ok {
							cc.bconst[nm.Name] = v == 1
						}
					}
				}
				i++
			}
		}
	}
	e := cc.buildFunc(fi.decl.Body, fi.decl.Type, fi.decl.Recv, next)
	if c.x.recHit[key] && !c.x.recProbe {
		// re-build in a scratch process to see whether the recursive helper matters at all
		c.x.recProbe = true
		sc := cc.scratch()
		sc.env, sc.defers = map[string]string{}, map[*ast.DeferStmt]int{}
		se := sc.buildFunc(fi.decl.Body, fi.decl.Type, fi.decl.Recv, 1)
		c.x.recProbe = false
		if sc.interesting(se) {
			c.x.unsupported(call.Pos(), "recursive helper %s with model-relevant body", key)
		}
		return next
	}
	return e
}
