#!/usr/bin/env python3
"""seed_eval.py <seed-out-dir> <dest-id> <CHECK-ID>...
Confirms a seeded change (patch.diff + demo + meta.json produced by a seeding sub-agent) in a scratch worktree of /repo
HEAD: the demonstration passes without the patch and fails with it, the touched packages' own tests pass with it; then runs
the given /verif checks against the patched tree.  Copies the change to /verif/seeded/<dest-id>/ with the outcome."""
import json, os, re, shutil, subprocess, sys, tempfile, time

def sh(cmd, cwd=None, env=None, timeout=3600):
    e = dict(os.environ, GOFLAGS="-mod=mod", GOPROXY="off", GOSUMDB="off", GOTOOLCHAIN="local", GODEBUG="goindex=0")
    if env: e.update(env)
    r = subprocess.run(cmd, shell=True, cwd=cwd, env=e, capture_output=True, text=True, timeout=timeout)
    return r.returncode, r.stdout + r.stderr

def main():
    src, dest, checks = sys.argv[1], sys.argv[2], sys.argv[3:]
    meta = json.load(open(os.path.join(src, "meta.json")))
    wt = tempfile.mkdtemp(prefix="seedeval.", dir="/tmp"); os.rmdir(wt)
    sh("git -C /repo worktree add -q --detach %s HEAD" % wt)
    out = {"property": meta.get("property"), "summary": meta.get("summary"), "needs": meta.get("needs"), "ran": []}
    try:
        # install demo
        m = re.search(r"to\s+([\w/\.\-]+/)", meta.get("demo_install", ""))
        pkgdir = m.group(1) if m else None
        demos = []
        for root, _, files in os.walk(os.path.join(src, "demo")):
            for f in files:
                rel = os.path.relpath(os.path.join(root, f), os.path.join(src, "demo"))
                dst = os.path.join(wt, pkgdir or "", rel)
                os.makedirs(os.path.dirname(dst), exist_ok=True)
                shutil.copy(os.path.join(root, f), dst); demos.append(dst)
        seedroot = os.path.dirname(os.path.dirname(os.path.abspath(src)))
        cmd = meta["demo_cmd"].replace("$PWD", wt).replace(seedroot, wt).replace("<worktree>", wt).replace("<repo>", wt)
        cmd = re.sub(r"/tmp/seed2?/C\d\d(?![\w-])", wt, cmd)  # the seeding agent's own worktree, long gone
        cmd = re.split(r"\s{2,}\(", cmd)[0]          # some agents append prose in parentheses after the command
        rc0, o0 = sh(cmd, cwd=wt)
        out["demo_without_patch"] = "pass" if rc0 == 0 else "FAIL"
        if rc0 != 0:
            out["demo_without_patch_output"] = o0[-600:]
        rc, o = sh("git apply %s" % os.path.join(src, "patch.diff"), cwd=wt)
        out["patch_applies"] = rc == 0
        if rc != 0:
            out["apply_error"] = o[-500:]
        else:
            rc1, o1 = sh(cmd, cwd=wt)
            out["demo_with_patch"] = "fail" if rc1 != 0 else "PASS(!)"
            # touched packages' own tests (demo removed)
            for d in demos: os.remove(d)
            pk = sorted({"./" + os.path.dirname(l[6:]) for l in open(os.path.join(src, "patch.diff")) if l.startswith("+++ b/") and l.strip().endswith(".go")})
            rc2, o2 = sh("KIT_REPO=%s python3 /tmp/buildkit/gen_overlay.py >/dev/null; go test -tags verif -overlay .kitbuild/overlay.json -vet=off -count=1 %s 2>&1 | grep -E '^(ok|FAIL|---)'" % (wt, " ".join(pk)), cwd=wt, timeout=3000)
            out["package_tests_with_patch"] = o2.strip().splitlines()[-6:]
            shutil.rmtree(os.path.join(wt, ".kitbuild"), ignore_errors=True)
            for cid in checks:
                t0 = time.time()
                w = tempfile.mkdtemp(prefix="seedw.", dir="/tmp")
                rc3, o3 = sh("/verif/bin/vcheck %s" % cid, cwd="/verif", env={"VERIF_REPO": wt, "VERIF_WORK": w, "VERIF_TIER": os.environ.get("VERIF_TIER", "quick")}, timeout=7200)
                shutil.rmtree(w, ignore_errors=True)
                lines = [l for l in o3.splitlines() if re.match(r"^(OK|VIOLATION|KNOWN-FINDING|NO-VERDICT)", l) or l.startswith("  ")]
                out["ran"].append({"check": cid, "exit": rc3, "caught": rc3 == 1, "wall_s": round(time.time() - t0), "output": [l[:300] for l in lines[:4]]})
    finally:
        sh("git -C /repo worktree remove --force %s" % wt)
        shutil.rmtree(wt, ignore_errors=True)
    d = os.path.join("/verif/seeded", dest)
    os.makedirs(d, exist_ok=True)
    if os.path.realpath(src) != os.path.realpath(d):       # (re-evaluating a kept seed: nothing to copy)
        shutil.copy(os.path.join(src, "patch.diff"), os.path.join(d, "patch.diff"))
        if os.path.isdir(os.path.join(d, "demo")): shutil.rmtree(os.path.join(d, "demo"))
        shutil.copytree(os.path.join(src, "demo"), os.path.join(d, "demo"))
    meta.pop("confirmed", None)
    meta["confirmed"] = out
    json.dump(meta, open(os.path.join(d, "meta.json"), "w"), indent=1)
    print(json.dumps(out, indent=1))

if __name__ == "__main__":
    main()
