#!/usr/bin/env python3
"""Shared machinery of /verif: TLC driving, TLA+ value parsing, state-graph walking,
Go harness driving (overlay build of the current /repo tree), verdicts, evidence.

Exit-code contract (DESIGN §4.3):  0 = property held on everything explored,
1 = VIOLATION reproduced on the real code, 2 = no verdict (infrastructure problem).
"""
import hashlib, json, os, random, re, shutil, subprocess, sys, time

VERIF = os.path.dirname(os.path.dirname(os.path.abspath(__file__)))
REPO = os.environ.get("VERIF_REPO", "/repo")
SPEC = os.path.join(VERIF, "spec")
WORK = os.environ.get("VERIF_WORK") or os.path.join(VERIF, ".work")
# one overlay per target tree, so that checks may run concurrently against /repo and scratch worktrees
BUILD = os.path.join(VERIF, ".build") if REPO == "/repo" else os.path.join(
    VERIF, ".build", "alt-" + hashlib.sha1(REPO.encode()).hexdigest()[:10])
TLA_CP = "/opt/veriftools/tla/tla2tools.jar:/opt/veriftools/tla/CommunityModules-deps.jar"


class Infra(Exception):
    """Anything that prevents a verdict (exit 2)."""


def log(*a):
    print(*a, flush=True)


# --------------------------------------------------------------------------- Go side

def goenv(extra=None):
    e = dict(os.environ)
    e.update(GOFLAGS="-mod=mod", GOPROXY="off", GOSUMDB="off", GOTOOLCHAIN="local", GODEBUG="goindex=0")
    e.setdefault("GOCACHE", os.path.expanduser("~/.cache/go-build"))
    if extra:
        e.update({k: str(v) for k, v in extra.items()})
    return e


def gen_overlay():
    r = subprocess.run([sys.executable, os.path.join(VERIF, "overlay", "gen_overlay.py")],
                       capture_output=True, text=True, env=goenv({"VERIF_REPO": REPO, "VERIF_BUILD": BUILD}))
    if r.returncode != 0:
        raise Infra("overlay generation failed: " + r.stderr)
    return os.path.join(BUILD, "overlay.json")


def go_test(pkg, run, env=None, timeout=1800, race=False, extra_args=None, tags="verif", cwd=None):
    """Build the in-package harness test binary of the CURRENT /repo tree through the overlay
    (go test -c) and run it.  Returns (returncode, combined output).  The binary runs in `cwd`
    (default: a scratch dir), so overlay-only package directories work too."""
    ov = gen_overlay()
    bindir = os.path.join(WORK, "gobin")
    os.makedirs(bindir, exist_ok=True)
    exe = os.path.join(bindir, "t-%s-%d.test" % (hashlib.sha1((pkg + run + REPO).encode()).hexdigest()[:10], os.getpid()))
    cmd = ["go", "test", "-c", "-tags", tags, "-overlay", ov, "-vet=off", "-o", exe]
    if race:
        cmd.append("-race")
    cmd.append(pkg)
    try:
        r = subprocess.run(cmd, cwd=REPO, env=goenv(env), capture_output=True, text=True, timeout=1800)
    except subprocess.TimeoutExpired:
        raise Infra("go test -c timed out: " + " ".join(cmd))
    if r.returncode != 0 or not os.path.exists(exe):
        raise Infra("harness does not build (%s):\n%s" % (pkg, (r.stdout + r.stderr)[-4000:]))
    run_cwd = cwd or os.path.join(bindir, "cwd-%d" % os.getpid())
    os.makedirs(run_cwd, exist_ok=True)
    cmd = [exe, "-test.run", run, "-test.timeout", "%ds" % timeout, "-test.count", "1"]
    if extra_args:
        cmd += extra_args
    try:
        renv = dict(env or {})
        renv.setdefault("TMPDIR", run_cwd)      # harness scratch dirs die with the run directory
        r = subprocess.run(cmd, cwd=run_cwd, env=goenv(renv), capture_output=True, text=True, timeout=timeout + 60)
        rc, out = r.returncode, r.stdout + r.stderr
    except subprocess.TimeoutExpired as e:
        raise Infra("harness timed out: %s %s" % (pkg, run))
    finally:
        try:
            os.remove(exe)
        except OSError:
            pass
        if not cwd:
            shutil.rmtree(run_cwd, ignore_errors=True)
    return rc, out


def go_build(pkg, out, race=False, tags="verif"):
    ov = gen_overlay()
    cmd = ["go", "build", "-tags", tags, "-overlay", ov, "-o", out]
    if race:
        cmd.append("-race")
    cmd.append(pkg)
    r = subprocess.run(cmd, cwd=REPO, env=goenv(), capture_output=True, text=True)
    if r.returncode != 0:
        raise Infra("go build failed:\n" + r.stdout + r.stderr)
    return out


# --------------------------------------------------------------------------- TLC

class TlcResult:
    def __init__(self):
        self.ok = False            # "No error has been found"
        self.violation = None      # name of violated invariant / property / "deadlock" / "postcondition"
        self.generated = 0
        self.distinct = 0
        self.depth = 0
        self.out = ""
        self.error_trace = []      # list of (action, state-dict) for counterexamples
        self.wall = 0.0
        self.cfg = ""
        self.zero_cov = []         # actions with zero coverage (when -coverage)

    def summary(self):
        return dict(cfg=self.cfg, generated=self.generated, distinct=self.distinct, depth=self.depth,
                    ok=self.ok, violation=self.violation, wall_s=round(self.wall, 2))


def tlc(spec_dir, module, cfg, workdir, workers=None, timeout=900, args=None, java_opts=None, heap=None, files=None):
    """Run TLC on <spec_dir>/<module>.tla with <cfg>.  All spec dirs are copied to a scratch
    dir first (TLC litters).  The verdict is parsed from the output, never from the exit code."""
    os.makedirs(workdir, exist_ok=True)
    sd = os.path.join(workdir, "spec")
    if not os.path.isdir(sd):
        os.makedirs(sd)
    # copy the module directory and the common directory flat into the scratch dir
    for d in (os.path.join(SPEC, "common"), spec_dir):
        if os.path.isdir(d):
            for fn in os.listdir(d):
                if fn.endswith((".tla", ".cfg")):
                    shutil.copy(os.path.join(d, fn), os.path.join(sd, fn))
    for dst, src in (files or {}).items():      # extra input files (e.g. trace.ndjson) placed next to the spec
        shutil.copy(src, os.path.join(sd, dst))
    md = os.path.join(workdir, "md.%d" % (int(time.time() * 1000) % 10**9))
    cmd = ["java", "-XX:+UseParallelGC"]
    cmd.append("-Xmx" + (heap or os.environ.get("VERIF_TLC_HEAP", "6g")))
    cmd += ["-Xss64m"]
    if java_opts:
        cmd += java_opts
    cmd += ["-cp", TLA_CP, "tlc2.TLC", "-metadir", md, "-config", cfg,
            "-workers", str(workers or os.environ.get("VERIF_TLC_WORKERS", "8"))]
    if args:
        cmd += args
    cmd.append(module)
    t0 = time.time()
    try:
        r = subprocess.run(cmd, cwd=sd, capture_output=True, text=True, timeout=timeout)
        out = r.stdout + r.stderr
    except subprocess.TimeoutExpired as e:
        out = (e.stdout or b"").decode("utf-8", "replace") if isinstance(e.stdout, bytes) else (e.stdout or "")
        res = TlcResult()
        res.out = out + "\n[vlib] TLC TIMEOUT after %ds" % timeout
        res.violation = "timeout"
        res.wall = time.time() - t0
        res.cfg = cfg
        _parse_stats(res)
        shutil.rmtree(md, ignore_errors=True)
        return res
    res = TlcResult()
    res.out = out
    res.wall = time.time() - t0
    res.cfg = cfg
    _parse_stats(res)
    if "Model checking completed. No error has been found." in out:
        res.ok = True
    elif "Finished computing initial states" in out and "-simulate" in " ".join(cmd) and "Error:" not in out:
        res.ok = True
    m = re.search(r"Error: Invariant (\S+) is violated", out)
    if m:
        res.violation = m.group(1)
    elif re.search(r"Error: Action property (\S+) is violated", out):
        res.violation = re.search(r"Error: Action property (\S+) is violated", out).group(1)
    elif "Temporal properties were violated" in out:
        res.violation = "temporal"
    elif "Deadlock reached" in out:
        res.violation = "deadlock"
    elif re.search(r"Postcondition|POSTCONDITION", out) and "is false" in out or "was violated" in out and "ostcondition" in out:
        res.violation = "postcondition"
    elif "Error:" in out and not res.ok:
        res.violation = "error"
    if res.violation:
        res.ok = False
        res.error_trace = parse_error_trace(out)
    for mm in re.finditer(r"<(\w+) line \d+, col \d+ to line \d+, col \d+ of module (\w+)>: (\d+):(\d+)", out):
        if mm.group(4) == "0" and mm.group(3) == "0":
            res.zero_cov.append(mm.group(1))
    shutil.rmtree(md, ignore_errors=True)
    return res


def _parse_stats(res):
    m = None
    for m in re.finditer(r"(\d+) states generated, (\d+) distinct states found", res.out):
        pass
    if m:
        res.generated, res.distinct = int(m.group(1)), int(m.group(2))
    m = re.search(r"The depth of the complete state graph search is (\d+)", res.out)
    if m:
        res.depth = int(m.group(1))


def tlc_infra_fail(res):
    """True when the TLC run produced no usable verdict (parse error, OOM, timeout...)."""
    if res.ok:
        return False
    if res.violation in ("timeout", "error") or res.violation is None:
        return True
    return False


def parse_error_trace(out):
    """Counterexample states printed by TLC: 'State N: <Action ...>' followed by /\\ var = value lines."""
    trace = []
    blocks = re.split(r"\nState (\d+): ", "\n" + out)
    i = 1
    while i + 1 < len(blocks):
        body = blocks[i + 1]
        head, _, rest = body.partition("\n")
        txt = rest.split("\n\n")[0]
        act = re.match(r"<(\w+)", head)
        try:
            st = parse_state(txt)
        except Exception:
            st = {"_raw": txt}
        trace.append((act.group(1) if act else head.strip(), st))
        i += 2
    return trace


# --------------------------------------------------------------------------- TLA+ value parser

class _P:
    def __init__(self, s):
        self.s = s
        self.i = 0

    def ws(self):
        while self.i < len(self.s) and self.s[self.i] in " \t\r\n":
            self.i += 1

    def peek(self, k=1):
        return self.s[self.i:self.i + k]

    def eat(self, tok):
        self.ws()
        if self.s.startswith(tok, self.i):
            self.i += len(tok)
            return True
        return False

    def expect(self, tok):
        if not self.eat(tok):
            raise ValueError("expected %r at %d: %r" % (tok, self.i, self.s[self.i:self.i + 40]))

    def value(self, bare=True):
        self.ws()
        c = self.peek()
        if c == '"':
            j = self.i + 1
            buf = []
            while self.s[j] != '"':
                if self.s[j] == "\\":
                    j += 1
                buf.append(self.s[j])
                j += 1
            self.i = j + 1
            v = "".join(buf)
        elif self.peek(2) == "<<":
            self.i += 2
            v = []
            self.ws()
            if not self.eat(">>"):
                while True:
                    v.append(self.value())
                    if self.eat(">>"):
                        break
                    self.expect(",")
        elif c == "{":
            self.i += 1
            v = []
            self.ws()
            if not self.eat("}"):
                while True:
                    v.append(self.value())
                    if self.eat("}"):
                        break
                    self.expect(",")
            v = {"_set": v}
        elif c == "[":
            self.i += 1
            v = {}
            while True:
                self.ws()
                m = re.match(r"[A-Za-z_][A-Za-z0-9_]*", self.s[self.i:])
                k = m.group(0)
                self.i += len(k)
                self.expect("|->")
                v[k] = self.value()
                if self.eat("]"):
                    break
                self.expect(",")
        elif c == "(":
            self.i += 1
            pairs = []
            while True:
                k = self.value(False)
                self.expect(":>")
                val = self.value(False)
                pairs.append((k, val))
                if self.eat(")"):
                    break
                self.expect("@@")
            v = _mkfun(pairs)
        else:
            m = re.match(r"-?\d+", self.s[self.i:])
            if m:
                self.i += len(m.group(0))
                v = int(m.group(0))
            else:
                m = re.match(r"[A-Za-z_][A-Za-z0-9_]*", self.s[self.i:])
                if not m:
                    raise ValueError("bad value at %d: %r" % (self.i, self.s[self.i:self.i + 40]))
                self.i += len(m.group(0))
                w = m.group(0)
                v = True if w == "TRUE" else False if w == "FALSE" else w
        # function application chains / @@ at top level are handled by "(" only
        self.ws()
        if bare and self.peek(2) == ":>":      # bare  a :> b  (single-pair function without parens)
            self.i += 2
            val = self.value(False)
            pairs = [(v, val)]
            while self.eat("@@"):
                k = self.value_noassoc()
                self.expect(":>")
                pairs.append((k, self.value_noassoc()))
            v = _mkfun(pairs)
        return v

    def value_noassoc(self):
        return self.value(False)


def _mkfun(pairs):
    if all(isinstance(k, int) for k, _ in pairs) and sorted(k for k, _ in pairs) == list(range(1, len(pairs) + 1)):
        return [v for _, v in sorted(pairs)]
    if all(isinstance(k, (str, int)) for k, _ in pairs):
        return {str(k): v for k, v in pairs}
    return {"_fun": [[k, v] for k, v in pairs]}


def parse_value(s):
    p = _P(s)
    v = p.value()
    p.ws()
    if p.i != len(p.s):
        raise ValueError("trailing text: %r" % p.s[p.i:p.i + 40])
    return plain(v)


def plain(v):
    """sets -> sorted lists (by JSON text) so values are JSON-serialisable and canonical."""
    if isinstance(v, dict):
        if "_set" in v and len(v) == 1:
            items = [plain(x) for x in v["_set"]]
            return sorted(items, key=lambda x: json.dumps(x, sort_keys=True))
        return {k: plain(x) for k, x in v.items()}
    if isinstance(v, list):
        return [plain(x) for x in v]
    return v


def parse_state(txt):
    """'/\\ a = 1\\n/\\ b = <<>>' -> {'a': 1, 'b': []}"""
    st = {}
    txt = txt.strip()
    parts = re.split(r"(?m)^/\\ ", txt)
    for part in parts:
        part = part.strip()
        if not part:
            continue
        name, _, val = part.partition(" = ")
        st[name.strip()] = parse_value(val.strip())
    return st


# --------------------------------------------------------------------------- state graph

class Graph:
    def __init__(self):
        self.states = {}      # id -> state dict
        self.init = []        # ids
        self.edges = []       # (src, dst, action)
        self.out = {}         # src -> [(dst, action)]


def parse_dot(path):
    g = Graph()
    node_re = re.compile(r'^(-?\d+) \[label="(.*)"(,style = filled)?\]\s*;?\s*$')
    edge_re = re.compile(r'^(-?\d+) -> (-?\d+) \[label="([^"]*)"')
    with open(path) as f:
        for line in f:
            line = line.rstrip("\n")
            m = edge_re.match(line)
            if m:
                s, d, a = m.group(1), m.group(2), m.group(3)
                g.edges.append((s, d, a))
                g.out.setdefault(s, []).append((d, a))
                continue
            m = node_re.match(line)
            if m:
                lab = m.group(2).replace("\\n", "\n").replace('\\"', '"').replace("\\\\", "\\")
                g.states[m.group(1)] = parse_state(lab)
                if m.group(3):
                    g.init.append(m.group(1))
    return g


def dump_graph(spec_dir, module, cfg, workdir, timeout=900, workers=None):
    res = tlc(spec_dir, module, cfg, workdir, workers=workers, timeout=timeout,
              args=["-dump", "dot,actionlabels", os.path.join(workdir, "graph")])
    dot = os.path.join(workdir, "graph.dot")
    if not os.path.exists(dot):
        raise Infra("TLC did not dump a graph:\n" + res.out[-3000:])
    return res, parse_dot(dot)


def edge_cover_paths(g, max_len=None, rng=None):
    """Paths from an initial state such that every edge of the graph is on at least one path.
    BFS tree gives a shortest path to every state; every edge (s,d) yields path(s)+edge, then paths
    are greedily extended along uncovered edges to keep their number down."""
    from collections import deque
    parent = {}
    dq = deque()
    for i in g.init:
        parent[i] = None
        dq.append(i)
    while dq:
        s = dq.popleft()
        for k, (d, a) in enumerate(g.out.get(s, [])):
            if d not in parent:
                parent[d] = (s, k)
                dq.append(d)

    def path_to(s):
        p = []
        while parent[s] is not None:
            ps, k = parent[s]
            p.append((ps, k))
            s = ps
        p.reverse()
        return p

    covered = set()
    paths = []
    order = [(s, k) for s in g.out for k in range(len(g.out[s])) if s in parent]
    if rng:
        rng.shuffle(order)
    for (s, k) in order:
        if (s, k) in covered:
            continue
        p = path_to(s) + [(s, k)]
        for e in p:
            covered.add(e)
        # extend greedily through uncovered edges
        cur = g.out[s][k][0]
        while max_len is None or len(p) < max_len:
            nxt = None
            for kk in range(len(g.out.get(cur, []))):
                if (cur, kk) not in covered:
                    nxt = kk
                    break
            if nxt is None:
                break
            p.append((cur, nxt))
            covered.add((cur, nxt))
            cur = g.out[cur][nxt][0]
        paths.append(p)
    return paths


def path_to_behaviour(g, p):
    """[(src,k)...] -> {'init': state, 'steps': [{'action':..., 'state':...}]}"""
    if not p:
        return None
    beh = {"init": g.states[p[0][0]], "steps": []}
    for (s, k) in p:
        d, a = g.out[s][k]
        beh["steps"].append({"action": a, "state": g.states[d]})
    return beh


def parse_sim_traces(prefix_dir, prefix):
    """Files written by `-simulate file=<prefix>`: <prefix>_0_0 ... each with STATE_n == ... blocks."""
    behs = []
    for fn in sorted(os.listdir(prefix_dir)):
        if not fn.startswith(os.path.basename(prefix)):
            continue
        txt = open(os.path.join(prefix_dir, fn)).read()
        txt = "\n".join(l for l in txt.splitlines() if not l.startswith("\\*"))
        states = []
        for m in re.finditer(r"STATE_\d+ ==\s*\n(.*?)(?=\n\s*\nSTATE_|\n=+|\Z)", txt, re.S):
            states.append(parse_state(m.group(1)))
        if states:
            behs.append(states)
    return behs


# --------------------------------------------------------------------------- findings / verdict

def load_known():
    p = os.path.join(VERIF, "known_findings.json")
    if not os.path.exists(p):
        return []
    return json.load(open(p)).get("findings", [])


def match_known(prop, sig):
    """sig: dict describing the specific failing input.  A finding matches when every key of its
    'match' dict equals the corresponding key of sig.  Only 'open' findings suppress."""
    for f in load_known():
        if f.get("property") != prop or f.get("status") != "open":
            continue
        if all(sig.get(k) == v for k, v in f.get("match", {}).items()):
            return f
    return None


class Check:
    """One run of one property's check; collects coverage and produces the verdict + evidence."""

    def __init__(self, pid, level):
        self.pid = pid
        self.level = level
        self.tier = os.environ.get("VERIF_TIER", "quick")
        if self.tier not in ("quick", "thorough"):
            self.tier = "quick"
        try:
            self.seed = int(os.environ.get("VERIF_SEED", "1"))
        except ValueError:
            self.seed = 1
        self.t0 = time.time()
        self.work = os.path.join(WORK, pid)
        shutil.rmtree(self.work, ignore_errors=True)
        os.makedirs(self.work)
        self.replays = os.path.join(WORK, "replays", pid)
        os.makedirs(self.replays, exist_ok=True)
        self.configs = []
        self.states = 0
        self.transitions = 0
        self.traces_validated = 0
        self.evaluations = 0
        self.distinct = set()
        self.samples = []
        self.violations = []      # (sig, replay_path, text)
        self.known_hits = []
        self.notes = []
        self.assumptions = []
        self.exhaustive = False
        self.rule = ""
        self.extra = {}

    # --- TLC bookkeeping
    def add_tlc(self, res, what):
        self.configs.append(dict(res.summary(), what=what))
        self.states += res.distinct
        self.transitions += res.generated

    def require_ok(self, res, what):
        """A design-level model-checking run must come out clean; otherwise no verdict (R2)."""
        self.add_tlc(res, what)
        if not res.ok:
            tail = res.out[-4000:]
            raise Infra("TLC run '%s' (%s) did not come out clean: %s\n%s" % (what, res.cfg, res.violation, tail))

    # --- evaluations
    def count(self, key=None, nontrivial=True, n=1):
        self.evaluations += n
        if key is not None and nontrivial:
            self.distinct.add(key if isinstance(key, str) else hashlib.sha1(
                json.dumps(key, sort_keys=True).encode()).hexdigest())

    def sample(self, s, cap=3):
        if len(self.samples) < cap:
            self.samples.append(s)

    def violation(self, sig, replay_obj, text):
        """Register a violation observed on the real code.  sig identifies the specific failing input."""
        h = hashlib.sha1(json.dumps(replay_obj, sort_keys=True, default=str).encode()).hexdigest()[:12]
        path = os.path.join(self.replays, "replay-%s.json" % h)
        with open(path, "w") as f:
            json.dump({"property": self.pid, "sig": sig, "what": text, "replay": replay_obj}, f, indent=1, default=str)
        k = match_known(self.pid, sig)
        if k:
            if k["id"] not in [x["id"] for x in self.known_hits]:
                self.known_hits.append(k)
        else:
            self.violations.append((sig, path, text))

    def absorb_go(self, outpath, output=""):
        """Merge a harness result file {evaluations, distinct:[...], samples:[...], violations:[{sig,replay,text}],
        traces_validated} written by a Go harness."""
        if not os.path.exists(outpath):
            raise Infra("harness wrote no result file %s\n%s" % (outpath, output[-4000:]))
        try:
            r = json.load(open(outpath))
        except Exception as e:
            raise Infra("harness result unreadable: %s\n%s" % (e, output[-3000:]))
        self.evaluations += int(r.get("evaluations", 0))
        for d in r.get("distinct") or []:
            self.distinct.add(d)
        for s in r.get("samples") or []:
            self.sample(s)
        self.traces_validated += int(r.get("traces_validated", 0))
        for v in r.get("violations") or []:
            self.violation(v.get("sig", {}), v.get("replay", {}), v.get("text", ""))
        for n in r.get("notes") or []:
            self.notes.append(n)
        return r

    # --- finish
    def finish(self):
        wall = time.time() - self.t0
        cov = dict(
            states=self.states, transitions=self.transitions,
            traces_validated_against_impl=self.traces_validated,
            evaluations=self.evaluations, distinct_nontrivial=len(self.distinct),
            rule=self.rule, samples=self.samples or ["(none)"], exhaustive=self.exhaustive,
            configs=self.configs, notes=self.notes[:20],
            known_findings_hit=[k["id"] for k in self.known_hits],
        )
        cov.update(self.extra)
        ev = dict(property_id=self.pid, tier=self.tier, seed=self.seed, level=self.level, coverage=cov,
                  assumptions=self.assumptions, wall_s=round(wall, 2), violations=len(self.violations))
        # evidence under /verif describes runs against /repo itself; a run against another tree (VERIF_REPO: seeded
        # changes, scratch worktrees) keeps its evidence in its own work directory
        evdir = os.path.join(VERIF, "evidence") if os.path.realpath(REPO) == "/repo" else os.path.join(WORK, "evidence")
        os.makedirs(evdir, exist_ok=True)
        tmp = os.path.join(evdir, ".%s.%d.tmp" % (self.pid, os.getpid()))
        with open(tmp, "w") as f:
            json.dump(ev, f, indent=1, default=str)
        os.replace(tmp, os.path.join(evdir, self.pid + ".json"))
        for k in self.known_hits:
            log("KNOWN-FINDING: property=%s %s" % (self.pid, k.get("what", k["id"])))
        if self.violations:
            seen = set()
            for sig, path, text in self.violations:
                if path in seen:
                    continue
                seen.add(path)
                log("VIOLATION property=%s replay=%s" % (self.pid, path))
                log("  " + text.replace("\n", "\n  ")[:1500])
            return 1
        log("OK property=%s tier=%s states=%d evaluations=%d distinct=%d traces=%d wall=%.1fs" % (
            self.pid, self.tier, self.states, self.evaluations, len(self.distinct), self.traces_validated, wall))
        return 0


def crash_site(output):
    """If the harness process was ended by a Go panic/fatal error raised INSIDE the code under test (first frame below the
    runtime is a function of github.com/aergoio/aergo/v2 that is not harness code), return (message, "func file:line").
    A process killed by such a panic in a goroutine of the real code is real-code behaviour (the node would die the same
    way); anything else (harness bug, OOM, timeout) stays a dead driver."""
    lines = output.splitlines()
    for i, l in enumerate(lines):
        if l.startswith("panic: ") or l.startswith("fatal error: "):
            msg = l.strip()
            j = i + 1
            while j < len(lines) and not lines[j].startswith("goroutine "):
                j += 1
            k = j + 1
            while k + 1 < len(lines):
                fn, loc = lines[k].strip(), lines[k + 1].strip()
                if not fn or fn.startswith("goroutine "):
                    break
                if fn.startswith(("panic(", "runtime.", "runtime/", "testing.", "created by")):
                    k += 2
                    continue
                f = loc.split(" ")[0]
                if "github.com/aergoio/aergo/v2" in fn and "/verif" not in f and "verif_" not in os.path.basename(f) and "Verif" not in fn:
                    return msg, "%s %s" % (fn.rsplit("(", 1)[0], re.sub(r"^.*?/(?=(pkg|chain|state|types|contract|consensus|mempool|p2p|syncer|internal)/)", "", f))
                return None
            return None
    return None


def run_check(pid, level, fn):
    """Entry point used by bin/vcheck: wraps fn(check) with the exit-code contract."""
    c = None
    try:
        c = Check(pid, level)
        fn(c)
        rc = c.finish()
    except Infra as e:
        if c is not None and c.violations:
            # violations reproduced on the real code before a later stage broke down remain the verdict
            c.notes.append("a later stage ended without a verdict: %s" % str(e)[:300])
            log("(a later stage ended without a verdict: %s)" % str(e)[:300])
            rc = c.finish()
        else:
            log("NO-VERDICT property=%s: %s" % (pid, e))
            rc = 2
    except Exception:
        import traceback
        log("NO-VERDICT property=%s: internal error\n%s" % (pid, traceback.format_exc()))
        rc = 2
    finally:
        shutil.rmtree(os.path.join(WORK, pid), ignore_errors=True)
    return rc


# --------------------------------------------------------------------------- transition logs (Gen configs)

def parse_transitions(out):
    """Lines printed by Util!LogTransition: "TR|<<src, act, dst>>" (PrintT of a string => quoted, escaped)."""
    trs = []
    for line in out.splitlines():
        if not line.startswith('"TR|'):
            continue
        body = line[4:-1].replace('\\"', '"').replace("\\\\", "\\")
        v = parse_value(body)
        trs.append((v[0], v[1], v[2]))
    return trs


def fun_items(v):
    """Normalise a parsed TLA+ function value into a list of (key, value) pairs."""
    if isinstance(v, dict) and "_fun" in v:
        return [(k, x) for k, x in v["_fun"]]
    if isinstance(v, dict):
        return list(v.items())
    if isinstance(v, list):
        return [(i + 1, x) for i, x in enumerate(v)]
    raise ValueError("not a function: %r" % (v,))


def random_walks(n_states_out, start, n, length, rng):
    """n random walks of given length over adjacency {state: [(edge_index, dst)]}."""
    walks = []
    for _ in range(n):
        cur, w = start, []
        for _ in range(length):
            outs = n_states_out.get(cur)
            if not outs:
                break
            ei, d = outs[rng.randrange(len(outs))]
            w.append(ei)
            cur = d
        walks.append(w)
    return walks


# --------------------------------------------------------------------------- trace validation (direction B)

def validate_trace(spec_dir, module, cfg, workdir, trace_path, timeout=900, dfs=False):
    """Validate a recorded ndjson trace against a *Trace.tla spec (POSTCONDITION TraceAccepted).
    Returns (accepted, matched_events, total_events, TlcResult).  TLC runs with one worker; with dfs=True the
    depth-first queue is used (trace specs that branch on unlogged choices)."""
    total = sum(1 for line in open(trace_path) if line.strip())
    jo = ["-Dtlc2.tool.queue.IStateQueue=StateDeque"] if dfs else None
    res = tlc(spec_dir, module, cfg, workdir, workers=1, timeout=timeout, java_opts=jo,
              files={"trace.ndjson": trace_path})
    matched = max(res.depth - 1, 0)
    if res.violation == "timeout" or (not res.ok and res.violation in (None, "error") and "ostcondition" not in res.out):
        raise Infra("trace validation produced no verdict (%s):\n%s" % (res.violation, res.out[-3000:]))
    accepted = res.ok and matched == total
    return accepted, matched, total, res


def corrupt_trace(trace_path, out_path, rng, mode):
    """Binding self-test helper: produce a corrupted copy of a trace (drop one event / alter one field)."""
    lines = [l for l in open(trace_path) if l.strip()]
    idx = [i for i, l in enumerate(lines) if '"Reset"' not in l]
    i = idx[rng.randrange(len(idx))]
    if mode == "drop":
        del lines[i]
    else:
        return None
    open(out_path, "w").writelines(lines)
    return i


def graph_from_transitions(trs, is_init):
    """Build a Graph from (src, act, dst) triples (Gen configs).  States are keyed by their canonical JSON."""
    g = Graph()
    def key(s):
        return hashlib.sha1(json.dumps(s, sort_keys=True).encode()).hexdigest()
    for (s, a, d) in trs:
        ks, kd = key(s), key(d)
        if ks not in g.states:
            g.states[ks] = s
            if is_init(s):
                g.init.append(ks)
        if kd not in g.states:
            g.states[kd] = d
        g.edges.append((ks, kd, a))
        g.out.setdefault(ks, []).append((kd, a))
    return g


def go_test_sharded(pkg, run, nshards, env_for, timeout=1800, race=False, tags="verif"):
    """Build the harness test binary once and run `nshards` copies concurrently (separate processes:
    aergo keeps configuration in package globals).  env_for(i) -> env dict of shard i (VERIF_SHARD is added).
    Returns list of (returncode, output)."""
    import concurrent.futures
    ov = gen_overlay()
    bindir = os.path.join(WORK, "gobin")
    os.makedirs(bindir, exist_ok=True)
    exe = os.path.join(bindir, "s-%s-%d.test" % (hashlib.sha1((pkg + run + REPO).encode()).hexdigest()[:10], os.getpid()))
    cmd = ["go", "test", "-c", "-tags", tags, "-overlay", ov, "-vet=off", "-o", exe]
    if race:
        cmd.append("-race")
    cmd.append(pkg)
    r = subprocess.run(cmd, cwd=REPO, env=goenv(), capture_output=True, text=True, timeout=1800)
    if r.returncode != 0 or not os.path.exists(exe):
        raise Infra("harness does not build (%s):\n%s" % (pkg, (r.stdout + r.stderr)[-4000:]))

    def one(i):
        cwd = os.path.join(bindir, "cwd-%d-%d" % (os.getpid(), i))
        os.makedirs(cwd, exist_ok=True)
        e = dict(env_for(i))
        e["VERIF_SHARD"] = "%d/%d" % (i, nshards)
        e.setdefault("TMPDIR", cwd)
        try:
            p = subprocess.run([exe, "-test.run", run, "-test.timeout", "%ds" % timeout, "-test.count", "1"],
                               cwd=cwd, env=goenv(e), capture_output=True, text=True, timeout=timeout + 60)
            return p.returncode, p.stdout + p.stderr
        except subprocess.TimeoutExpired:
            return 124, "timeout"
        finally:
            shutil.rmtree(cwd, ignore_errors=True)
    try:
        with concurrent.futures.ThreadPoolExecutor(max_workers=nshards) as ex:
            return list(ex.map(one, range(nshards)))
    finally:
        try:
            os.remove(exe)
        except OSError:
            pass
