#!/bin/sh
# usage: tools/try_patch.sh <patch-file|-> <CHECK-ID>...   (patch applied to a scratch worktree of /repo HEAD; '-' = no patch but use REV env)
# Runs the given checks against the patched tree, prints the last lines, removes the worktree.
set -e
P="$1"; shift
D=$(mktemp -d /tmp/mut.XXXXXX)
rmdir "$D"
git -C /repo worktree add -q --detach "$D" "${REV:-HEAD}"
trap 'git -C /repo worktree remove --force "$D" >/dev/null 2>&1; rm -rf "$D" /tmp/mutw.$$' EXIT
if [ "$P" != "-" ]; then git -C "$D" apply "$P"; fi
for id in "$@"; do
  echo "== $id on $(basename "$P") =="
  VERIF_REPO="$D" VERIF_WORK=/tmp/mutw.$$ VERIF_TIER=${VERIF_TIER:-quick} /verif/bin/vcheck "$id" 2>&1 | grep -E "^(OK|VIOLATION|KNOWN-FINDING|NO-VERDICT)|^  " | head -${LINES_MAX:-6} | cut -c1-400
done
